module yieldinst

go 1.21
