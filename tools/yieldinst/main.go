// yieldinst rewrites a Go source file so that the deterministic simulator
// decides every interleaving at its synchronisation points: a call
// verifsim.Yield("<kind>@<file>:<line>") is inserted
//
//   - before every statement that calls Lock, RLock, Unlock or RUnlock,
//   - before every channel send, select statement and close(...) call,
//   - at the top of every loop body.
//
// The rewritten copy only ever exists in the build directory of /verif and is
// compiled in place of the original through `go build -overlay`: the tree in
// /repo is not touched, and a change to it that adds, moves or removes a
// synchronisation point is instrumented the same way on the next build.
//
// usage: yieldinst <in.go> <out.go> <import path of verifsim>
package main

import (
	"fmt"
	"go/ast"
	"go/parser"
	"go/token"
	"os"
	"path/filepath"
	"sort"
)

type ins struct {
	off  int
	text string
}

func main() {
	if len(os.Args) != 4 {
		fmt.Fprintln(os.Stderr, "usage: yieldinst in.go out.go verifsim-import-path")
		os.Exit(2)
	}
	in, out, imp := os.Args[1], os.Args[2], os.Args[3]
	src, err := os.ReadFile(in)
	if err != nil {
		fmt.Fprintln(os.Stderr, err)
		os.Exit(2)
	}
	fset := token.NewFileSet()
	f, err := parser.ParseFile(fset, in, src, parser.ParseComments)
	if err != nil {
		fmt.Fprintln(os.Stderr, err)
		os.Exit(2)
	}
	base := filepath.Base(in)
	var edits []ins
	site := func(kind string, p token.Pos) string {
		return fmt.Sprintf("verifyield.Yield(%q); ", fmt.Sprintf("%s@%s:%d", kind, base, fset.Position(p).Line))
	}
	before := func(kind string, s ast.Stmt) {
		edits = append(edits, ins{fset.Position(s.Pos()).Offset, site(kind, s.Pos())})
	}
	bodyTop := func(kind string, b *ast.BlockStmt) {
		if b == nil {
			return
		}
		edits = append(edits, ins{fset.Position(b.Lbrace).Offset + 1, " " + site(kind, b.Lbrace)})
	}
	// A statement may only be prefixed where a statement list is: blocks, case
	// clauses and comm clauses. (An "if x := f(); ..." init statement is not.)
	var stmts func(list []ast.Stmt)
	stmts = func(list []ast.Stmt) {
		for _, s := range list {
			switch s := s.(type) {
			case *ast.ExprStmt:
				if c, ok := s.X.(*ast.CallExpr); ok {
					switch fn := c.Fun.(type) {
					case *ast.SelectorExpr:
						switch fn.Sel.Name {
						case "Lock", "RLock", "Unlock", "RUnlock":
							before(fn.Sel.Name, s)
						}
					case *ast.Ident:
						if fn.Name == "close" {
							before("close", s)
						}
					}
				}
			case *ast.SendStmt:
				before("send", s)
			case *ast.SelectStmt:
				before("select", s)
			case *ast.LabeledStmt:
				// a yield between a label and its statement would detach them
			}
		}
	}
	ast.Inspect(f, func(n ast.Node) bool {
		switch n := n.(type) {
		case *ast.BlockStmt:
			stmts(n.List)
		case *ast.CaseClause:
			stmts(n.Body)
		case *ast.CommClause:
			stmts(n.Body)
		case *ast.ForStmt:
			bodyTop("loop", n.Body)
		case *ast.RangeStmt:
			bodyTop("loop", n.Body)
		}
		return true
	})
	n := len(edits)
	sort.SliceStable(edits, func(i, j int) bool { return edits[i].off > edits[j].off })
	buf := append([]byte(nil), src...)
	for _, e := range edits {
		buf = append(buf[:e.off], append([]byte(e.text), buf[e.off:]...)...)
	}
	// the import goes right after the package clause (own declaration: legal
	// before any other import declaration)
	if n > 0 {
		off := fset.Position(f.Name.End()).Offset
		buf = append(buf[:off], append([]byte("; import verifyield "+fmt.Sprintf("%q", imp)), buf[off:]...)...)
	}
	if err := os.WriteFile(out, buf, 0o644); err != nil {
		fmt.Fprintln(os.Stderr, err)
		os.Exit(2)
	}
	fmt.Printf("%s: %d yield points\n", base, n)
}
