// yieldinst rewrites a Go source file so that the deterministic simulator
// decides every interleaving at its synchronisation points: a call
// verifsim.Yield("<kind>@<file>:<line>") is inserted
//
//   - before every statement that calls Lock, RLock, Unlock or RUnlock,
//   - before every channel send, select statement and close(...) call,
//   - at the top of every loop body.
//
// The rewritten copy only ever exists in the build directory of /verif and is
// compiled in place of the original through `go build -overlay`: the tree in
// /repo is not touched, and a change to it that adds, moves or removes a
// synchronisation point is instrumented the same way on the next build.
//
// usage: yieldinst <in.go> <out.go> <import path of verifsim>
package main

import (
	"fmt"
	"go/ast"
	"go/parser"
	"go/token"
	"os"
	"path/filepath"
	"sort"
)

type ins struct {
	off  int
	text string
	del  int // bytes replaced at off (0 = pure insertion)
}

// mutexNames collects, from every non-test file of the directory, the names of
// struct fields and variables declared as sync.Mutex / sync.RWMutex (value:
// false) or as pointers to them (true).
func mutexNames(dir string) map[string]bool {
	out := map[string]bool{}
	ents, _ := os.ReadDir(dir)
	for _, e := range ents {
		n := e.Name()
		if filepath.Ext(n) != ".go" || len(n) > 8 && n[len(n)-8:] == "_test.go" {
			continue
		}
		fs := token.NewFileSet()
		f, err := parser.ParseFile(fs, filepath.Join(dir, n), nil, 0)
		if err != nil {
			continue
		}
		isMu := func(t ast.Expr) (bool, bool) {
			ptr := false
			if st, ok := t.(*ast.StarExpr); ok {
				t, ptr = st.X, true
			}
			if se, ok := t.(*ast.SelectorExpr); ok {
				if id, ok := se.X.(*ast.Ident); ok && id.Name == "sync" && (se.Sel.Name == "Mutex" || se.Sel.Name == "RWMutex") {
					return true, ptr
				}
			}
			return false, false
		}
		ast.Inspect(f, func(n ast.Node) bool {
			switch n := n.(type) {
			case *ast.Field:
				if ok, ptr := isMu(n.Type); ok {
					for _, id := range n.Names {
						out[id.Name] = ptr
					}
				}
			case *ast.ValueSpec:
				if n.Type != nil {
					if ok, ptr := isMu(n.Type); ok {
						for _, id := range n.Names {
							out[id.Name] = ptr
						}
					}
				}
			}
			return true
		})
	}
	return out
}

func main() {
	if len(os.Args) != 4 && len(os.Args) != 5 {
		fmt.Fprintln(os.Stderr, "usage: yieldinst in.go out.go verifsim-import-path [coop]")
		os.Exit(2)
	}
	in, out, imp := os.Args[1], os.Args[2], os.Args[3]
	// "coop": Lock/RLock/Unlock/RUnlock calls on the package's own sync.Mutex /
	// sync.RWMutex fields and variables become verifyield.Lock(&x) ...: a
	// goroutine that has to wait for such a lock then waits on a channel, which
	// testing/synctest counts as durably blocked, so that a lock held across a
	// simulated slow call delays the others in fake time instead of stopping the
	// fake clock for good (a goroutine blocked in sync.Mutex.Lock is never idle
	// for synctest).
	coop := len(os.Args) == 5 && os.Args[4] == "coop"
	var muNames map[string]bool
	if coop {
		muNames = mutexNames(filepath.Dir(in))
	}
	src, err := os.ReadFile(in)
	if err != nil {
		fmt.Fprintln(os.Stderr, err)
		os.Exit(2)
	}
	fset := token.NewFileSet()
	f, err := parser.ParseFile(fset, in, src, parser.ParseComments)
	if err != nil {
		fmt.Fprintln(os.Stderr, err)
		os.Exit(2)
	}
	base := filepath.Base(in)
	var edits []ins
	site := func(kind string, p token.Pos) string {
		return fmt.Sprintf("verifyield.Yield(%q); ", fmt.Sprintf("%s@%s:%d", kind, base, fset.Position(p).Line))
	}
	before := func(kind string, s ast.Stmt) {
		edits = append(edits, ins{fset.Position(s.Pos()).Offset, site(kind, s.Pos()), 0})
	}
	bodyTop := func(kind string, b *ast.BlockStmt) {
		if b == nil {
			return
		}
		edits = append(edits, ins{fset.Position(b.Lbrace).Offset + 1, " " + site(kind, b.Lbrace), 0})
	}
	// A statement may only be prefixed where a statement list is: blocks, case
	// clauses and comm clauses. (An "if x := f(); ..." init statement is not.)
	var stmts func(list []ast.Stmt)
	stmts = func(list []ast.Stmt) {
		for _, s := range list {
			switch s := s.(type) {
			case *ast.ExprStmt:
				if c, ok := s.X.(*ast.CallExpr); ok {
					switch fn := c.Fun.(type) {
					case *ast.SelectorExpr:
						switch fn.Sel.Name {
						case "Lock", "RLock", "Unlock", "RUnlock":
							before(fn.Sel.Name, s)
						}
					case *ast.Ident:
						if fn.Name == "close" {
							before("close", s)
						}
					}
				}
			case *ast.SendStmt:
				before("send", s)
			case *ast.SelectStmt:
				before("select", s)
			case *ast.LabeledStmt:
				// a yield between a label and its statement would detach them
			}
		}
	}
	// "defer x.Unlock()" becomes "defer func() { Yield(...); x.Unlock() }()": a
	// goroutine can then be made to step back (or be parked) while it still
	// holds the lock, at the end of its critical section - without this a
	// critical section without a loop or a send in it is atomic for the
	// simulator, and "what if somebody else comes along while the lock is held"
	// is never asked.
	deferred := map[*ast.CallExpr]bool{}
	ast.Inspect(f, func(n ast.Node) bool {
		switch n := n.(type) {
		case *ast.DeferStmt:
			fn, ok := n.Call.Fun.(*ast.SelectorExpr)
			if !ok || len(n.Call.Args) != 0 || (fn.Sel.Name != "Unlock" && fn.Sel.Name != "RUnlock") {
				break
			}
			deferred[n.Call] = true
			a, b := fset.Position(n.Pos()).Offset, fset.Position(n.End()).Offset
			call := string(src[fset.Position(n.Call.Pos()).Offset:fset.Position(n.Call.End()).Offset])
			if coop {
				name := ""
				switch x := fn.X.(type) {
				case *ast.Ident:
					name = x.Name
				case *ast.SelectorExpr:
					name = x.Sel.Name
				}
				if ptr, known := muNames[name]; known {
					recv := string(src[fset.Position(fn.X.Pos()).Offset:fset.Position(fn.X.End()).Offset])
					amp := "&"
					if ptr {
						amp = ""
					}
					call = "verifyield." + fn.Sel.Name + "(" + amp + recv + ")"
				}
			}
			y := fmt.Sprintf("verifyield.Yield(%q)", fmt.Sprintf("%s@%s:%d", fn.Sel.Name, base, fset.Position(n.Pos()).Line))
			edits = append(edits, ins{a, "defer func() { " + y + "; " + call + " }()", b - a})
		case *ast.CallExpr:
			if !coop || len(n.Args) != 0 || deferred[n] {
				break
			}
			fn, ok := n.Fun.(*ast.SelectorExpr)
			if !ok {
				break
			}
			switch fn.Sel.Name {
			case "Lock", "RLock", "Unlock", "RUnlock":
			default:
				return true
			}
			name := ""
			switch x := fn.X.(type) {
			case *ast.Ident:
				name = x.Name
			case *ast.SelectorExpr:
				name = x.Sel.Name
			}
			ptr, known := muNames[name]
			if !known {
				break
			}
			a, b := fset.Position(n.Pos()).Offset, fset.Position(n.End()).Offset
			recv := string(src[fset.Position(fn.X.Pos()).Offset:fset.Position(fn.X.End()).Offset])
			amp := "&"
			if ptr {
				amp = ""
			}
			edits = append(edits, ins{a, "verifyield." + fn.Sel.Name + "(" + amp + recv + ")", b - a})
		case *ast.BlockStmt:
			stmts(n.List)
		case *ast.CaseClause:
			stmts(n.Body)
		case *ast.CommClause:
			stmts(n.Body)
		case *ast.ForStmt:
			bodyTop("loop", n.Body)
		case *ast.RangeStmt:
			bodyTop("loop", n.Body)
		}
		return true
	})
	n := len(edits)
	// back to front; at one offset the replacement goes first, so that the
	// insertion ends up in front of the replaced text
	sort.SliceStable(edits, func(i, j int) bool {
		if edits[i].off != edits[j].off {
			return edits[i].off > edits[j].off
		}
		return edits[i].del > edits[j].del
	})
	buf := append([]byte(nil), src...)
	for _, e := range edits {
		buf = append(buf[:e.off], append([]byte(e.text), buf[e.off+e.del:]...)...)
	}
	// the import goes right after the package clause (own declaration: legal
	// before any other import declaration)
	if n > 0 {
		off := fset.Position(f.Name.End()).Offset
		buf = append(buf[:off], append([]byte("; import verifyield "+fmt.Sprintf("%q", imp)), buf[off:]...)...)
	}
	if err := os.WriteFile(out, buf, 0o644); err != nil {
		fmt.Fprintln(os.Stderr, err)
		os.Exit(2)
	}
	fmt.Printf("%s: %d yield points\n", base, n)
}
