#!/bin/bash
# somechecks.sh <patch-file> <label> (ALLCHECKS_PROPS="C04 C08 ..." selects properties; default all): apply a patch to a scratch worktree of /repo and run the quick check of every claimed
# property against it (own build and output directories). Prints one line per property: OK / VIOLATION / ERROR.
export GOFLAGS=-mod=mod GOPROXY=off GOSUMDB=off GOTOOLCHAIN=local
patch=$1; id=$2; wt=/tmp/mut/$id
mkdir -p /tmp/mut; rm -rf $wt $wt.build $wt.out
git -C /repo worktree add --detach $wt HEAD >/dev/null 2>&1 || { echo "$id WORKTREE-FAIL"; exit 2; }
if ! git -C $wt apply $patch 2>/dev/null && ! git -C $wt apply -3 $patch >/dev/null 2>&1; then echo "$id PATCH-FAIL"; git -C /repo worktree remove --force $wt; exit 2; fi
for p in ${ALLCHECKS_PROPS:-C01 C03 C04 C05 C06 C07 C08 C09 C10 C11 C12 C13 C14 C15 C16 C17 C18 C19 C20}; do
  out=$(cd ${VERIF_DIR:-/verif} && VERIF_REPO=$wt VERIF_BUILD=$wt.build VERIF_OUT=$wt.out VERIF_NO_SELFTEST=1 ./verif check $p ${ALLCHECKS_ARGS} 2>&1); rc=$?
  case $rc in
    0) echo "$id $p OK $(echo "$out" | grep -o 'does not compile[^;]*' | head -1)";;
    1) echo "$id $p VIOLATION $(echo "$out" | grep -E 'rule=' | head -2 | cut -c1-260 | tr '\n' ' ')";;
    *) echo "$id $p ERROR rc=$rc $(echo "$out" | tail -3 | tr '\n' ' ' | cut -c1-300)";;
  esac
done
git -C /repo worktree remove --force $wt >/dev/null 2>&1; rm -rf $wt $wt.build $wt.out
