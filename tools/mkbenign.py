#!/usr/bin/env python3
"""mkbenign.py <id> <area>: prompt + scratch worktree for a small OBSERVABLE but PROPERTY-PRESERVING change (used to test that the checks do not demand more than the properties state)."""
import json, os, subprocess, sys
wid, area = sys.argv[1], sys.argv[2]
hint = sys.argv[3] if len(sys.argv) > 3 else ""
wt = '/tmp/wt/' + wid
if not os.path.exists(wt):
    subprocess.check_call(['git', '-C', '/repo', 'worktree', 'add', '--detach', wt, 'HEAD'], stdout=subprocess.DEVNULL, stderr=subprocess.DEVNULL)
props = [json.loads(l) for l in open('/verif/properties.jsonl')]
ptxt = "\n".join("  %s (%s): %s" % (p['id'], p['title'], p['statement']) for p in props)
txt = f"""You are helping to evaluate a verification tool for an open-source Go project, mdlayher/corerad (an IPv6 NDP router advertisement daemon). The tool checks the 20 behavioural properties listed below. We want to know whether it demands MORE than those properties state, so we need realistic changes to the daemon that DO change something observable but do NOT violate any of the properties.

Your private scratch git worktree of the repository is at {wt} (work ONLY there; never touch /repo or /verif, and do not read anything under /verif).

Every shell command needs this environment first (no network is available):
  export GOFLAGS=-mod=mod GOPROXY=off GOSUMDB=off GOTOOLCHAIN=local

THE PROPERTIES (everything they do not mention is free to change):
{ptxt}

YOUR TASK: make ONE to THREE small, realistic changes in this area: {area}. {hint} Each must change something an outside observer could notice (an additional or reworded log line - but keep the words "forwarding" in the existing not-forwarding warning -, an extra read-only system call such as reading a sysctl or listing addresses once more, an extra metric or label-free counter, a different internal buffer size or back-off duration where no property fixes it, an additional debug HTTP route, work done in a different but equally legal order, a harmless extra goroutine, an extra field in the JSON API output, ...) while ALL of the properties above still hold exactly as stated for every input and schedule. Think carefully about each property before you settle on a change: if in doubt that a change is allowed, pick another. Do not weaken or remove any existing behaviour. Do NOT touch files whose name starts with verif_.
The project must still build (`go build ./...`, also `go build -tags verif ./...`) and the existing test suite must still pass: `go test -vet=off -count=1 ./...` (ignore internal/netstate TestIntegrationWatcherWatch, which always fails in this sandbox; edit an existing test only where your deliberate, allowed change of output makes a mechanical update necessary, and say so).

DELIVERABLES inside {wt}: the change left applied in the working tree (uncommitted) and saved with `git diff > {wt}/patch.diff`; {wt}/meta.json with keys "summary" (what changed, and for each change one sentence on why no property is violated) and "files" (list). NEVER use `git stash`. Finish by printing `git diff --stat` and meta.json."""
open('/tmp/wt/_prompts/%s.txt' % wid, 'w').write(txt)
print(wt)
