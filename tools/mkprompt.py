#!/usr/bin/env python3
"""mkprompt.py <PROP> <suffix>: write /tmp/wt/_prompts/<PROP><suffix>.txt and create the scratch worktree /tmp/wt/<PROP><suffix>.
The prompt contains only the property's text (and one-sentence summaries of earlier attempts so that a new one differs); nothing from /verif."""
import glob, json, os, subprocess, sys
prop, suf = sys.argv[1], sys.argv[2]
wid = prop + suf
P = None
for l in open('/verif/properties.jsonl'):
    p = json.loads(l)
    if p['id'] == prop:
        P = p
tried = []
for m in sorted(glob.glob('/verif/seeded/%s*/meta.json' % prop)):
    tried.append(json.load(open(m))['summary'])
wt = '/tmp/wt/' + wid
os.makedirs('/tmp/wt/_prompts', exist_ok=True)
if not os.path.exists(wt):
    subprocess.check_call(['git', '-C', '/repo', 'worktree', 'add', '--detach', wt, 'HEAD'], stdout=subprocess.DEVNULL, stderr=subprocess.DEVNULL)
files = ", ".join(P['anchors']['files'])
txt = f"""You are helping to evaluate a verification tool by writing a realistic *defect injection* (a mutation) for an open-source Go project, mdlayher/corerad (an IPv6 NDP router advertisement daemon). This is authorised test-engineering work on a private scratch copy; nothing is ever committed upstream.

Your private scratch git worktree of the repository is at {wt} (work ONLY there; never touch /repo or /verif, and do not read anything under /verif).

Every shell command needs this environment first (no network is available):
  export GOFLAGS=-mod=mod GOPROXY=off GOSUMDB=off GOTOOLCHAIN=local

THE PROPERTY (id {prop}): {P['title']}
Statement: {P['statement']}
Quantifier: {P['quantifier']['text']}
Code it is anchored in: {files}

YOUR TASK: make ONE small, realistic change to the non-test Go source under {wt} (the kind of slip a developer could plausibly make in a refactor or "optimisation": an off-by-one, a wrong comparison, a missing case, a stale cached value, a reordered statement, a lost wake-up, two cooperating edits that each look fine alone) such that:
 1. the project still compiles (`go build ./...` and `go vet ./internal/...` are clean enough to build);
 2. the existing test suite still passes: `go test -vet=off -count=1 ./...` (ignore internal/netstate TestIntegrationWatcherWatch which always fails in this sandbox, and tests that skip themselves for lack of privileges);
 3. the property above is violated by the changed code;
 4. the violation needs something SPECIFIC to manifest — a particular interleaving or timing, a fault or stop at a particular point, a multi-step sequence of operations, an unusual-but-valid input or configuration, or a particular system state — NOT something every ordinary run would expose at once.
Do not edit or delete existing tests. Do not touch files whose name starts with verif_ (build-tag hooks). Prefer changes in the files the property is anchored in.

ADDITIONAL GUIDANCE FOR THIS ROUND: other engineers already tried the ideas listed below for this property; produce something DIFFERENT in kind. Prefer a defect that only shows under a particular *schedule, timing, fault or lifecycle point* (e.g. a stop/cancel/error/link event/re-initialisation arriving at a particular moment, a slow or failing system call, a request racing initialisation, an event arriving while another is pending, state carried over from one connection generation to the next, a value cached across a change, an error path that skips a step, a particular interleaving of concurrent callers) or under two cooperating edits that each look harmless. The change need not be in the anchored files: anything the property's behaviour passes through (configuration parsing, plugins, internal/system, internal/netstate, metrics, the debug HTTP handler, the server's task supervision) is fair game, as long as it is THIS property that ends up violated. Already tried:
""" + "".join(" - %s\n" % t for t in tried) + f"""
DELIVERABLES, all inside {wt}:
 - the source change itself left applied in the working tree (uncommitted), and also saved with `git diff > {wt}/patch.diff` (the diff must contain only your source change, not the demo);
 - a demonstration: a NEW Go test file (name it zz_demo_test.go, in the package where it fits best; it may use unexported identifiers and the existing test helpers of that package) whose test `TestDemo...` FAILS with your change and PASSES on the original code. Verify both yourself: run it with the change applied, then undo the source change with `git apply -R patch.diff` (NEVER use `git stash`: the stash is shared with other people's worktrees), run it again, then re-apply with `git apply patch.diff`. The demo must be deterministic and finish in a few seconds (use short intervals / injected clocks / the package's existing simulated connection helpers rather than real sockets or root privileges);
 - {wt}/meta.json with keys: "property" ("{prop}"), "summary" (one sentence: what was changed), "needs" (what specific condition makes it manifest), "files" (list of changed files), "demo_cmd" (exact go test command to run the demo from {wt}).
Finish by printing the content of patch.diff and meta.json and the two demo outcomes (with change: FAIL, without: PASS). Keep the change small (ideally under 15 changed lines)."""
open('/tmp/wt/_prompts/%s.txt' % wid, 'w').write(txt)
print(wt)
