#!/bin/bash
# allfixes.sh: take every "fixed" entry of known_findings.json, undo that one fix: commit in a scratch worktree of
# /repo (git revert -n), and run the quick check of its property there: the check must report the violation again
# under the rule the entry names (a fixed entry suppresses nothing). Prints one line per fix: RETURNS / SILENT /
# CONFLICT (the revert does not apply on top of later fixes). /repo and /verif/evidence are left alone.
export GOFLAGS=-mod=mod GOPROXY=off GOSUMDB=off GOTOOLCHAIN=local
mkdir -p /tmp/mut
python3 - <<'P' > /tmp/mut/_fixes.txt
import json
for e in json.load(open('/verif/known_findings.json'))['findings']:
    if e['status'] == 'fixed':
        print(e['commit'], e['property'], e['rule'])
P
one() {
  c=$1; prop=$2; rule=$3; wt=/tmp/mut/fix-$c
  rm -rf $wt $wt.build $wt.out
  git -C /repo worktree add --detach $wt HEAD >/dev/null 2>&1 || { echo "$c $prop WORKTREE-FAIL"; return; }
  if ! git -C $wt revert -n $c >/dev/null 2>&1; then echo "$c $prop $rule CONFLICT"; else
    git -C $wt reset -q
    out=$(cd /verif && VERIF_REPO=$wt VERIF_BUILD=$wt.build VERIF_OUT=$wt.out VERIF_NO_SELFTEST=1 VERIF_NO_RACE=1 ./verif check $prop 2>&1)
    rc=$?
    rules=$(echo "$out" | grep -o "rule=[A-Za-z0-9_.]*" | sort -u | tr '\n' ' ')
    if [ $rc -eq 1 ] && echo "$rules" | grep -q "rule=$rule "; then echo "$c $prop $rule RETURNS ($rules)";
    elif [ $rc -eq 1 ]; then echo "$c $prop $rule OTHER-RULE ($rules)";
    elif [ $rc -eq 0 ]; then echo "$c $prop $rule SILENT"; else echo "$c $prop ERROR rc=$rc $(echo "$out" | tail -2 | tr '\n' ' ' | cut -c1-200)"; fi
  fi
  git -C /repo worktree remove --force $wt >/dev/null 2>&1
  rm -rf $wt $wt.build $wt.out
}
export -f one
cat /tmp/mut/_fixes.txt | xargs -P ${ALLFIX_PAR:-2} -L1 bash -c 'one $0 $1 $2'
