#!/usr/bin/env python3
"""diverge.py PROP FROM TO [seed]: run indices three times (as first / later runs of a process) with full logs and show the first differing events."""
import json, os, subprocess, sys
prop, a, b = sys.argv[1], int(sys.argv[2]), int(sys.argv[3])
seed = sys.argv[4] if len(sys.argv) > 4 else "424242"
pkg = sys.argv[5] if len(sys.argv) > 5 else "corerad"
env = dict(os.environ, GOMAXPROCS="1", GODEBUG="asynctimerchan=0")
def run(frm, to, stride, out):
    if os.path.exists(out): os.remove(out)
    subprocess.run(["/verif/.build/%s.test" % pkg, "-test.run=^TestSim$", "-sim.prop=" + prop, "-sim.seed=" + seed, "-sim.from=%d" % frm,
                    "-sim.to=%d" % to, "-sim.stride=%d" % stride, "-sim.out=" + out, "-sim.dump"], env=env, stdout=subprocess.DEVNULL)
    d = {}
    for l in open(out):
        r = json.loads(l)
        if "begin" not in r: d[r["index"]] = r
    return d
A = run(a, b, 1, "/tmp/dv1.jsonl")
B = {}
for k in range(3):
    B.update(run(a + k, b, 3, "/tmp/dv2.jsonl"))
C = {}
for i in range(a, b):
    C.update(run(i, i + 1, 1, "/tmp/dv3.jsonl"))
n = 0
for i in sorted(A):
    for X in (B, C):
        if i in X and X[i]["hash"] != A[i]["hash"]:
            n += 1
            la, lb = A[i]["log"], X[i]["log"]
            print("=== index", i, len(la), len(lb))
            for k, (e, f) in enumerate(zip(la, lb)):
                if e != f:
                    for z in la[max(0, k - 4):k + 4]: z.pop("b", None); print("A", z)
                    for z in lb[max(0, k - 4):k + 4]: z.pop("b", None); print("B", z)
                    break
            break
print("divergent", n, "of", len(A))
