#!/bin/bash
# keepmut.sh <wt-id> <detected-by-text>: store a confirmed seeded change under /verif/seeded/<id>/ and drop the worktree.
id=$1; shift; wt=/tmp/wt/$id; d=/verif/seeded/$id
mkdir -p $d
cp $wt/patch.diff $d/patch.diff
demofile=$(cd $wt && git status --porcelain | grep zz_demo_test.go | awk '{print $2}')
cp $wt/$demofile $d/zz_demo_test.go.txt
python3 - "$wt" "$d" "$demofile" "$@" <<'PY'
import json,sys
wt,d,demofile=sys.argv[1:4]; det=" ".join(sys.argv[4:])
m=json.load(open(wt+'/meta.json'))
m['demo_file']=demofile
m['confirmed']="tools/verifymut.sh: builds; existing suite passes (netstate TestIntegrationWatcherWatch excepted); demo FAILS with the change and PASSES without it"
m['checked_with']="tools/trymut.sh (git -C /repo apply patch.diff; ./verif check <prop>; git -C /repo checkout -- .)"
m['detected_by']=det
json.dump(m,open(d+'/meta.json','w'),indent=1)
PY
git -C /repo worktree remove --force $wt
echo kept $id
