#!/bin/bash
# verifymut.sh <wt-id>: independently confirm a seeded change: builds, existing tests pass, demo fails with it and passes without.
id=$1; wt=/tmp/wt/$id
export GOFLAGS=-mod=mod GOPROXY=off GOSUMDB=off GOTOOLCHAIN=local
cd $wt || exit 2
demo=$(python3 -c "import json;print(json.load(open('$wt/meta.json'))['demo_cmd'])")
demofile=$(git status --porcelain | grep zz_demo_test.go | awk '{print $2}')
go build ./... || { echo BUILD-FAIL; exit 1; }
# existing suite without the demo file
mv $demofile /tmp/demo_$id.go
suite=$(go test -vet=off -count=1 ./internal/config ./internal/corerad ./internal/crhttp ./internal/plugin ./internal/system 2>&1 | grep -c "^FAIL\|^--- FAIL")
# netstate: only the known-failing integration test may fail
ns=$(go test -vet=off -count=1 ./internal/netstate 2>&1 | grep "^--- FAIL" | grep -vc TestIntegrationWatcherWatch)
mv /tmp/demo_$id.go $demofile
with=$(bash -c "$demo" 2>&1 | tail -1)
# (git stash is shared between worktrees: reverse-apply the patch instead)
git apply -R patch.diff
without=$(bash -c "$demo" 2>&1 | tail -1)
git apply patch.diff
echo "suite_failures=$suite netstate_unexpected=$ns"
echo "with change:    $with"
echo "without change: $without"
