#!/usr/bin/env python3
"""mkrefactor.py <id> <file>: prompt + scratch worktree for a behaviour-preserving refactoring (used to test that the checks stay silent, and still build, on code where every property holds)."""
import os, subprocess, sys
wid, target = sys.argv[1], sys.argv[2]
focus = ("\nFOCUS for this one: " + sys.argv[3] + "\n") if len(sys.argv) > 3 else ""
wt = '/tmp/wt/' + wid
if not os.path.exists(wt):
    subprocess.check_call(['git', '-C', '/repo', 'worktree', 'add', '--detach', wt, 'HEAD'], stdout=subprocess.DEVNULL, stderr=subprocess.DEVNULL)
txt = f"""You are helping to evaluate a verification tool for an open-source Go project, mdlayher/corerad (an IPv6 NDP router advertisement daemon), by producing a realistic BEHAVIOUR-PRESERVING refactoring. This is test-engineering work on a private scratch copy; nothing is committed upstream.

Your private scratch git worktree of the repository is at {wt} (work ONLY there; never touch /repo or /verif, and do not read anything under /verif).

Every shell command needs this environment first (no network is available):
  export GOFLAGS=-mod=mod GOPROXY=off GOSUMDB=off GOTOOLCHAIN=local

YOUR TASK: refactor the non-test Go source file {target} (and, only if the refactoring needs it, its direct callers) the way a maintainer tidying up the code would, WITHOUT changing anything observable: the same packets with the same contents to the same destinations at the same times, the same log lines (text and order), the same metric names/labels/values, the same error values (text AND wrapping: errors.Is/As must give the same answers), the same goroutine structure as far as it can be observed through blocking behaviour and ordering, the same calls into the operating system (sysctl reads/writes, netlink requests, socket calls) in the same order and number.
Make it substantial (roughly 40-150 changed lines), mixing several of: extracting helper functions or methods, inlining small helpers, renaming unexported identifiers (functions, methods, fields, variables), changing signatures of unexported functions (parameter order, passing a struct instead of several arguments, returning named results), replacing a switch by if/else or vice versa, early returns instead of nesting, reordering declarations and independent statements, replacing a hand-written loop by a slices/maps helper with identical semantics, moving code between files of the same package, adding or rewording comments. Do NOT touch files whose name starts with verif_ (build-tag hooks), do not change exported API used by other packages unless you update all users, do not edit existing tests except where a renamed unexported identifier forces a mechanical update.
{focus}The project must still build (`go build ./...`, also `go build -tags verif ./...`) and the existing test suite must still pass: `go test -vet=off -count=1 ./...` (ignore internal/netstate TestIntegrationWatcherWatch, which always fails in this sandbox, and tests that skip themselves).

DELIVERABLES inside {wt}: the change left applied in the working tree (uncommitted) and saved with `git diff > {wt}/patch.diff`; {wt}/meta.json with keys "summary" (what you refactored, 2-3 sentences) and "files" (list). NEVER use `git stash` (it is shared with other people's worktrees). Finish by printing `git diff --stat` and meta.json."""
open('/tmp/wt/_prompts/%s.txt' % wid, 'w').write(txt)
print(wt)
