#!/bin/bash
# trymut.sh <wt-id> <prop> [extra verif args]: apply /tmp/wt/<id>/patch.diff (or /verif/seeded/<id>/patch.diff) to /repo, run the check, revert.
id=$1; prop=$2; shift 2
pd=/tmp/wt/$id/patch.diff; [ -f $pd ] || pd=/verif/seeded/$id/patch.diff
cd /repo || exit 2
if ! git diff --quiet; then echo "repo dirty"; exit 2; fi
git apply $pd || { echo "patch does not apply"; exit 2; }
mkdir -p /tmp/trymut.out; cd /verif && VERIF_OUT=/tmp/trymut.out ./verif check $prop "$@" 2>&1 | grep -E "VIOLATION|KNOWN-FINDING|^  rule=|^verif: " | cut -c1-330 | tail -12
rc=${PIPESTATUS[0]}
git -C /repo checkout -- .
echo "rc=$rc"
