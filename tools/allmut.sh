#!/bin/bash
# allmut.sh [ids...]: run every kept seeded change (default: all of /verif/seeded) against the quick check of
# its property, each in its own scratch worktree + build + output directory (so /repo and /verif/evidence are
# left alone and ordinary checks can run meanwhile). Prints one line per change: DETECTED / MISSED.
# VERIF_DIR=<copy of /verif> runs the checks from a frozen copy of the machinery (so that it can be edited meanwhile).
export GOFLAGS=-mod=mod GOPROXY=off GOSUMDB=off GOTOOLCHAIN=local
ids="$@"; [ -z "$ids" ] && ids=$(ls /verif/seeded)
mkdir -p /tmp/mut
one() {
  id=$1; prop=${id:0:3}; wt=/tmp/mut/$id
  if grep -q '"retired"' /verif/seeded/$id/meta.json 2>/dev/null; then echo "$id RETIRED"; return; fi
  rm -rf $wt $wt.build $wt.out
  git -C /repo worktree add --detach $wt HEAD >/dev/null 2>&1 || { echo "$id WORKTREE-FAIL"; return; }
  if ! git -C $wt apply /verif/seeded/$id/patch.diff 2>/dev/null && ! git -C $wt apply -3 /verif/seeded/$id/patch.diff >/dev/null 2>&1; then echo "$id PATCH-FAIL"; else
    out=$(cd ${VERIF_DIR:-/verif} && VERIF_REPO=$wt VERIF_BUILD=$wt.build VERIF_OUT=$wt.out VERIF_NO_SELFTEST=1 ./verif check $prop 2>&1)
    rc=$?
    rules=$(echo "$out" | grep -o "rule=[A-Za-z0-9_.]*" | sort -u | tr '\n' ' ')
    if [ $rc -eq 1 ]; then echo "$id DETECTED $rules"; elif [ $rc -eq 0 ]; then echo "$id MISSED"; else echo "$id ERROR rc=$rc $(echo "$out" | tail -2 | tr '\n' ' ' | cut -c1-200)"; fi
  fi
  git -C /repo worktree remove --force $wt >/dev/null 2>&1
  rm -rf $wt $wt.build $wt.out
}
export -f one
echo $ids | tr ' ' '\n' | xargs -P ${ALLMUT_PAR:-2} -I{} bash -c 'one {}'
