#!/usr/bin/env python3
"""Regenerates MANIFEST.json from the table below (kept next to the runner so the two cannot drift)."""
import json, os, subprocess

V = os.path.dirname(os.path.abspath(__file__))

CLAIMED = {
 "C06": ("exploration",
         "Seeded search over solicitation/tick timelines (bounded-exhaustive grid corpus of <=3 (quick) / <=5 (thorough) solicitations from :: around the 3 s boundary x 3 interval settings, then random bursts, link flaps, transmit latency) against the real Advertiser on a fake clock; the spacing and served-within-3s rules are evaluated on the recorded WriteTo history. Exploration is the right level: the property quantifies over unbounded arrival histories.",
         "Real scheduler/schedgroup/errgroup on the synctest clock; kernel socket stubbed by simConn. Interleavings between seams are not explored.",
         "deterministic simulation: seeded timelines + history check", "6 (C06)"),
}

NOT_YET = {}

NA = {
 "C02": "Acceptance and defaulting of a configuration are a pure function of one byte string: no clock, I/O, concurrency, fault or history for a simulator to control (DESIGN.md section 7).",
}

def main():
    props = [json.loads(l)["id"] for l in open(os.path.join(V, "properties.jsonl"))]
    hooks = subprocess.check_output(["git", "-C", "/repo", "log", "--format=%H %s"], text=True).splitlines()
    hook_commits = [l.split()[0] for l in hooks if "verif hook" in l]
    checks = []
    for p in props:
        if p not in CLAIMED:
            continue
        cat, text, note, tech, ref = CLAIMED[p]
        checks.append({
            "property_id": p,
            "quick_cmd": "./verif check %s --tier quick" % p,
            "thorough_cmd": "./verif check %s --tier thorough" % p,
            "evidence_file": "/verif/evidence/%s.json" % p,
            "replay_cmd_template": "./verif replay {path}",
            "engine": "corerad-sim",
            "level_claimed": {"category": cat, "text": text, "design_ref": "DESIGN.md section " + ref},
            "level_note": note,
            "technique": tech,
        })
    na = [{"property_id": p, "reason": NA[p]} for p in props if p in NA]
    na += [{"property_id": p, "reason": "check not built yet (work in progress, see DESIGN.md section 12); no claim is made"}
           for p in props if p not in CLAIMED and p not in NA]
    m = {
        "version": 1,
        "setup_cmd": "./verif setup",
        "hooks": {
            "guard": "verif",
            "enable": "go1.26.8 test -c -tags verif -vet=off -overlay /verif/.build/overlay.json ./internal/<pkg> (run from /repo; GOTOOLCHAIN=local GOFLAGS=-mod=mod GOPROXY=off)",
            "baseline_off_cmd": "cd /repo && GOFLAGS=-mod=mod GOPROXY=off GOSUMDB=off go test -json -vet=off -count=1 -timeout 25m ./...",
            "source_commits": hook_commits,
            "add_only": True,
        },
        "engines": [{
            "name": "corerad-sim",
            "path": "/verif/sim (Go harness, overlaid into /repo's packages at build time) + /verif/verif (runner)",
            "serves_properties": [c["property_id"] for c in checks],
            "kind_free_text": "deterministic simulation with fault injection: real CoreRAD code inside a testing/synctest bubble against a simulated kernel/link; seeded plans, seam-gated schedules, history oracles, structural minimisation, replay files",
        }],
        "checks": checks,
        "not_applicable": na,
        "notes": "See DESIGN.md. known_findings.json lists genuine defects (fixed or open).",
    }
    json.dump(m, open(os.path.join(V, "MANIFEST.json"), "w"), indent=1)

main()
