#!/usr/bin/env python3
"""Regenerates MANIFEST.json from the table below (kept next to the runner so the two cannot drift)."""
import json, os, subprocess

V = os.path.dirname(os.path.abspath(__file__))

NOTE = "Real CoreRAD code (config.Parse, plugins, Advertiser/Monitor, schedgroup, errgroup, Server, metrics, HTTP handler, ndp codec) on the testing/synctest fake clock; the kernel side of every seam (socket, sysctl, rtnetlink via hook H1, link events via hook H2, signals, systemd socket) is a stub; the real Dialer.dial() runs above that stub (its calls into package net and ndp.Listen are substituted in a build-time copy; if that copy does not compile against the tree, dial() is stubbed as a whole and the run says so). Map iteration order, select choice and context cancellation order are drawn from the plan's seed; half of the plans additionally perturb same-instant goroutine order at AST-inserted yield points (internal/netstate under an explicit scheduler for C19). Sampling, not enumeration, unless stated."
TECH = "deterministic simulation with fault injection: seeded plans, seam-gated schedules on a fake clock, history/reference-model oracle, minimised replay"

def C(text, ref, cat="exploration", note=NOTE, tech=TECH):
    return (cat, text, note, tech, ref)

CLAIMED = {
 "C01": C("Seeded search over documented-valid configurations x changing machine state (addresses, loopback routes, MAC, forwarding, clock) under a running daemon; every RA actually transmitted on any path is decoded from its wire bytes and compared option by option with an executable reference model fed with the values that build read. Exploration: the space of configurations and states is unbounded.", "6 (C01), 5.1"),
 "C03": C("Seeded search over accepted configurations built from boundary duration strings and NAT64 prefixes of every family/length; the simulated transport marshals like the real socket, so an unencodable RA fails the daemon at start-up exactly as in production; decoded values are compared with the configured meaning and representability is judged per field; a quarter of the runs re-initialise the interface (link flap, re-creation) so that every connection generation is judged.", "6 (C03)"),
 "C04": C("Seeded search over forwarding on/off timelines per interface interleaved with RA generation on all seven paths (initial, periodic, solicited, final, consistency check, metrics scrape, debug API) of the whole daemon; each RA/log line/metric/API answer is judged against the forwarding value that very build was given; configurations with several interfaces list a monitoring-only stanza at any position.", "6 (C04)"),
 "C05": C("The real Advertiser.multicast loop under the fake clock with the request channel owned by the harness: every accepted whole-second (min,max) pair (1.2 M, thorough; sampled in quick) runs 7 requests and is then cancelled, under seed-chosen start offsets (they seed the loop's PRNG); multicastDelay is additionally driven through its *rand.Rand parameter with scripted extreme and rounding-boundary draws (a deterministic sweep, labelled as such); further populations: fractional pairs, a stalling consumer, a second generation on the same Advertiser, and the whole daemon over up to 3 simulated hours for recurrence and for the pacing of unsolicited RAs under solicitations from :: (black box: unaccounted multicast RAs are a sum of waits within [min,max] apart), with link flaps, failing transmissions and a link watcher that ends while the daemon goes on; a daemon that spins (events without fake time passing) stops the run and is reported. The component harness falls back to the black-box populations if the tree re-shapes the unexported functions it calls.", "6 (C05)"),
 "C06": C("Seeded search over solicitation/tick timelines (bounded-exhaustive grid corpus of <=3 (quick) / <=5 (thorough) solicitations from :: around the 3 s boundary x 3 interval settings, then random bursts, link flaps, transmit latency) against the real Advertiser on a fake clock; the spacing and served-within-3s rules are evaluated on the recorded WriteTo history.", "6 (C06)"),
 "C07": C("Seeded search over solicitation sequences (sources, repeats, bursts beyond the request queue, duplicates, timer-tick neighbourhoods, unicast_only on/off) with separate fault-free, transmit-latency, transmit-error and link-flap populations; unicast RAs are matched one-to-one with solicitations per destination and dial generation inside the 500 ms window, destinations and content are checked, and the sent/received/error counters are reconstructed from the metric update stream and compared with the transmissions actually made.", "6 (C07)"),
 "C08": C("The schedule space is the point: seeded stop instants (SIGTERM/SIGINT/SIGHUP) relative to pending solicited/periodic work, with send workers parked by the simulator in their forwarding read or inside WriteTo across the stop and released before, shortly after or long after it, bursts larger than the request queue, link events, failing transmissions and address tables that change right before the stop; exactly-one-final-RA, final-equals-the-current-normal-RA, final-is-last, no-final-on-reload, nothing-after-return, clean result and promptness are judged on the ordered WriteTo/seam history.", "6 (C08)"),
 "C09": C("Complete single-message table (every hop limit 0..254 x RS/RA x advertiser/monitor) followed by seeded runs of 1..12 consecutive invalid messages (beyond the 5-try receive budget) mixed with valid ones; per invalid message the effects of the listener goroutine up to its next read are inspected (no RA, no consistency check, no hook, no metric other than the invalid counter), the invalid counter is reconciled by type, and liveness is judged afterwards: task still running, no re-dial, every delivered packet read, following valid solicitations answered; no host is ever sent more unicast RAs than it had sent valid solicitations when an invalid message preceded the surplus one; one population aims a recoverable receive error at the read right after a run of invalid messages (re-dial, then service continues).", "6 (C09)"),
 "C10": C("Part A (package system): the real Dialer.Dial/init loop driven through complete enumerations of dial/task outcome sequences to a stated depth plus cancellation points and seeded long sequences, against the documented policy (classification, 50 attempts, 250 ms steps to 3 s, prompt clean cancel). Part B (package corerad): one fault of every class injected at a seeded instant into a running advertiser/monitor with work pending, optionally followed by failing re-dials; together / classify / backoff / timeouts / halfalive rules on the seam history, and the task must serve solicitations again afterwards.", "6 (C10)", cat="fault_enumeration"),
 "C17": C("Whole daemon wired as in main() (shared plugin objects between advertisers, metrics collector and HTTP handler; real prometheus registry and promhttp): seeded requests for /metrics, /_/api/interfaces, /, /debug/pprof/ and unknown paths at lifecycle points (interface never initialised, re-initialising, advertising), debug.prometheus/pprof on/off, failing sysctl/rtnetlink reads, and a scrape parked inside a sysctl read while solicitations keep arriving; crash / block / routing rules on every request and a mirror rule comparing samples and the JSON rendering (every option kind present, prefix and route lifetimes) with ramodel fed with the values that request read (a gauge produced without its read is held against the simulated system); four in ten requests travel over a simulated connection through the real http.Server of the debug task, one population stops the daemon while such a request is stuck in a system call.", "6 (C17)"),
 "C18": C("Seeded message sequences on a monitoring interface (RAs with arbitrary headers and option lists incl. zero/infinite lifetimes, repeated prefixes and unknown options; RS/NS/NA; several senders; duplicates; receipt instants around whole seconds; both metrics backends; re-initialisation, slow receives, isolated receive timeouts); the metric updates the monitor makes while handling each message are compared as a multiset with a model computed from the decoded message and the fake receipt time. An auxiliary run of three monitors on real threads under -race follows (outside the technique: state shared between monitors without synchronisation has no effect in a one-goroutine-at-a-time simulation; a reported race fails, silence proves nothing). Receive faults include runs of interrupted reads; in some plans the monitor's clock moves on every reading (one message, one receipt time).", "6 (C18), 14.5"),
 "C11": C("Part A: the real Dialer.Dial, dial(), dialNDP(), lookupInterface(), checkInterface() and setAutoconf()/restore against a simulated kernel (their calls into package net and ndp.Listen are substituted in a build-time copy of internal/system; nothing in /repo changes) with a persistent sysctl; enumerated outcome sequences x the place inside dial() where a failure arises x initial value x every (get,set,restore) fault combination on one generation, then seeded longer sequences with faults on several generations, external sysctl changes between connections, failing group-leave/close steps when a connection is given up, and cancellation anywhere; exactly-once cleanup of every socket the kernel hands out, restore to the value found when that connection was opened, tolerated vs reported errors. Part B: the same rules on the whole daemon (flaps, interfaces going away, failing dials, sysctl failures, external changes).", "6 (C11), 14.5", cat="fault_enumeration"),
 "C12": C("Peer routers on the simulated link, the multi-party half of CoreRAD: a second real CoreRAD instance with the same configuration (twins must stay silent about each other), our own RA echoed from another address, peers drawn from a small value domain independently of our configuration (absent/equal/different per field and option kind, both directions), and random larger RAs; every received RA crossed a real encode/decode. Counter increments, hook calls and log lines made while handling each peer RA are compared with an executable RFC 4861 6.2.7 model applied to (our RA at receipt according to ramodel, theirs as decoded).", "6 (C12), 5.3"),
 "C13": C("Address tables are environment nondeterminism: enumerated subsets (size <=2 quick / <=4 thorough) x all permutations of a 17-address pool, then seeded larger tables that change, are permuted, duplicated, emptied or fail while the daemon runs; each transmitted RA's prefix options are compared with the model applied to the listing that build was given.", "6 (C13-C15)"),
 "C14": C("Same populations as C13; the first RDNSS server of every transmitted RA is compared with the documented ranking applied to the listing that build was given; RAs transmitted although no address was eligible or the listing failed are violations.", "6 (C13-C15)"),
 "C15": C("Loopback route tables: enumerated subsets (size <=2 quick / <=4 thorough) x all permutations of a 13-route pool (nested prefixes with equal and different base, /128, ::/0, duplicates across two loopback interfaces), then seeded changing / permuted / duplicated / failing dumps; route options of every transmitted RA are compared with the model.", "6 (C13-C15)"),
 "C16": C("Real daemon on the bubble clock with solicitations placed around every deprecation deadline, plus the plugins' TimeNow seam driven by a seeded jumping clock (forward jumps, repeats, readings before the epoch); value, monotonicity, zero-after-deadline, preferred<=valid and constant rules on every RA.", "6 (C16)"),
 "C19": C("A real Watcher with a simulated rtnetlink event source (events pass through the real process()): the complete single-event table (127 masks x 7 states x matching/other interface), then seeded interleavings of Subscribe / emit batches / partial drains / end of watch (nil, error, cancellation) / subscribe-after-end / second Watch, with undrained subscribers; each subscriber channel is compared operation by operation with a bounded-FIFO model, the watcher must be back at quiescence after every emit (never blocks), channels are closed exactly once. Concurrent callers: the package is compiled from a yield-instrumented copy (tools/yieldinst: before every lock operation, send, select, close, and in every loop body), groups of Subscribe / notify / end-of-watch calls run under a plan-chosen schedule, deadlocks are detected, and the outcome is checked for linearizability against the model by trying every admissible sequential order. Auxiliary -race run of the same mix on real goroutines (outside the technique).", "6 (C19)"),
 "C20": C("The real Server.BuildTasks and Serve: task lists for configurations mixing advertise/monitor/neither interfaces, name groups and debug on/off against the model; supervision over scripted tasks (fail at an instant, return nil early, slow to stop, never ready, failing in the same instant as the signal) and real advertisers/monitors with SIGTERM/SIGINT/SIGHUP at seeded instants, the signal task parked in its supervisor notification between recording the signal and cancelling, a debug request in flight at the signal from a client that has stopped reading, a slow link watcher; prompt return after a signal, cancel-all, wait-all, first-error, clean-signal, terminate-flag-before-cancellation and readiness rules.", "6 (C20)"),
}

NOT_YET = {}

NA = {
 "C02": "Acceptance and defaulting of a configuration are a pure function of one byte string: no clock, I/O, concurrency, fault or history for a simulator to control (DESIGN.md section 7).",
}

def main():
    props = [json.loads(l)["id"] for l in open(os.path.join(V, "properties.jsonl"))]
    hooks = subprocess.check_output(["git", "-C", "/repo", "log", "--format=%H %s"], text=True).splitlines()
    hook_commits = [l.split()[0] for l in hooks if "verif hook" in l]
    checks = []
    for p in props:
        if p not in CLAIMED:
            continue
        cat, text, note, tech, ref = CLAIMED[p]
        checks.append({
            "property_id": p,
            "quick_cmd": "./verif check %s --tier quick" % p,
            "thorough_cmd": "./verif check %s --tier thorough" % p,
            "evidence_file": "/verif/evidence/%s.json" % p,
            "replay_cmd_template": "./verif replay {path}",
            "engine": "corerad-sim",
            "level_claimed": {"category": cat, "text": text, "design_ref": "DESIGN.md section " + ref},
            "level_note": note,
            "technique": tech,
        })
    na = [{"property_id": p, "reason": NA[p]} for p in props if p in NA]
    na += [{"property_id": p, "reason": "check not built yet (work in progress, see DESIGN.md section 12); no claim is made"}
           for p in props if p not in CLAIMED and p not in NA]
    m = {
        "version": 1,
        "setup_cmd": "./verif setup",
        "hooks": {
            "guard": "verif",
            "enable": "go1.26.8 test -c -tags verif -vet=off -overlay /verif/.build/overlay.json ./internal/<pkg> (run from /repo; GOTOOLCHAIN=local GOFLAGS=-mod=mod GOPROXY=off)",
            "baseline_off_cmd": "cd /repo && GOFLAGS=-mod=mod GOPROXY=off GOSUMDB=off go test -json -vet=off -count=1 -timeout 25m ./...",
            "source_commits": hook_commits,
            "add_only": True,
        },
        "engines": [{
            "name": "corerad-sim",
            "path": "/verif/sim (Go harness, overlaid into /repo's packages at build time) + /verif/verif (runner)",
            "serves_properties": [c["property_id"] for c in checks],
            "kind_free_text": "deterministic simulation with fault injection: real CoreRAD code inside a testing/synctest bubble against a simulated kernel/link; seeded plans, seam-gated schedules, history oracles, structural minimisation, replay files",
        }],
        "checks": checks,
        "not_applicable": na,
        "notes": "See DESIGN.md. known_findings.json lists genuine defects (fixed or open).",
    }
    json.dump(m, open(os.path.join(V, "MANIFEST.json"), "w"), indent=1)

main()
