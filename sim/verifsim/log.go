package verifsim

import (
	"strings"
	"crypto/sha256"
	"encoding/hex"
	"fmt"
	"runtime"
	"strconv"
	"sync"
	"time"
)

// An Event is one seam interaction (or driver action) of a simulated run.
// Seq is the global order; T the fake time in ns since the start of the run.
type Event struct {
	Seq  int    `json:"seq"`
	T    int64  `json:"t"`
	G    int    `json:"g,omitempty"` // canonical goroutine label (order of first seam use)
	PG   int    `json:"pg,omitempty"` // label of the goroutine that created G, if that one had been seen at a seam before (not part of the hash)
	K    string `json:"k"`           // kind, e.g. "write.enter"
	Node int    `json:"node,omitempty"`
	If   string `json:"if,omitempty"`
	Gen  int    `json:"gen,omitempty"` // dial generation of the interface
	S    string `json:"s,omitempty"`   // main string argument (destination, log line, path…)
	B    []byte `json:"b,omitempty"`   // payload bytes
	V    int64  `json:"v,omitempty"`   // numeric argument / result
	Err  string `json:"err,omitempty"`
	Ref  int    `json:"ref,omitempty"` // Seq of the matching *.enter
	F    string `json:"f,omitempty"`   // fault effect applied to this call
}

// Log is the recorded history of one run.
type Log struct {
	mu    sync.Mutex
	start time.Time
	ev    []Event
	gmap  map[int]int
	pmap  map[int]int // label -> label of the creating goroutine
}

// NewLog starts an event log whose time zero is start.
func NewLog(start time.Time) *Log {
	return &Log{start: start, gmap: make(map[int]int)}
}

// Now returns the fake time since start.
func (l *Log) Now() int64 { return int64(time.Since(l.start)) }

// Add appends e, filling Seq, T and G, and returns the Seq.
func (l *Log) Add(e Event) int {
	g := goid()
	l.mu.Lock()
	defer l.mu.Unlock()
	lab, ok := l.gmap[g]
	if !ok {
		lab = len(l.gmap) + 1
		l.gmap[g] = lab
		// who created this goroutine? (work handed to a helper goroutine still
		// belongs to whoever asked for it: histories attribute it to the parent)
		if l.pmap == nil {
			l.pmap = make(map[int]int)
		}
		if p := parentGoid(); p != 0 {
			if pl, ok := l.gmap[p]; ok {
				l.pmap[lab] = pl
			}
		}
	}
	e.Seq = len(l.ev) + 1
	e.T = int64(time.Since(l.start))
	e.G = lab
	e.PG = l.pmap[lab]
	l.ev = append(l.ev, e)
	// A system that keeps producing events while the fake clock (which only
	// moves when every goroutine is blocked, or by the microsecond a simulated
	// system call takes) hardly moves is spinning: the run would take for ever.
	// Stop it where it can be reported; no plan comes anywhere near this many
	// events within one second of fake time.
	if n := len(l.ev); n > SpinLimit && e.T-l.ev[n-1-SpinLimit].T < int64(time.Second) {
		panic(fmt.Sprintf("verifsim: spin: more than %d events within one second of fake time (at %v); the latest: %s %s %s", SpinLimit, time.Duration(e.T), e.K, e.If, e.S))
	}
	return e.Seq
}

// SpinLimit is the number of events within one second of fake time beyond which
// a run is declared to be spinning.
const SpinLimit = 20000

// Events returns the events recorded so far (a copy of the slice header; events
// are never mutated after being appended).
func (l *Log) Events() []Event {
	l.mu.Lock()
	defer l.mu.Unlock()
	return l.ev[:len(l.ev):len(l.ev)]
}

// Hash is the canonical hash of the complete log (sequence, fake times,
// arguments, results).
func Hash(ev []Event) string {
	h := sha256.New()
	for i := range ev {
		e := &ev[i]
		fmt.Fprintf(h, "%d|%d|%d|%s|%d|%s|%d|%s|%x|%d|%s|%d|%s\n",
			e.Seq, e.T, e.G, e.K, e.Node, e.If, e.Gen, e.S, e.B, e.V, e.Err, e.Ref, e.F)
	}
	return hex.EncodeToString(h.Sum(nil)[:12])
}

// SchedSig is the schedule signature: the sequence of (kind, interface,
// outcome class) without timestamps or payloads. Two runs with the same
// signature took the same path through the seams.
func SchedSig(ev []Event) string {
	h := sha256.New()
	for i := range ev {
		e := &ev[i]
		c := ""
		if e.Err != "" {
			c = "E"
		}
		fmt.Fprintf(h, "%s|%d|%s|%d|%s|%s\n", e.K, e.Node, e.If, e.G, c, e.F)
	}
	return hex.EncodeToString(h.Sum(nil)[:10])
}

// goid returns the runtime id of the calling goroutine.
func goid() int {
	var b [40]byte
	n := runtime.Stack(b[:], false)
	// "goroutine 123 ["
	s := b[len("goroutine "):n]
	i := 0
	for i < len(s) && s[i] >= '0' && s[i] <= '9' {
		i++
	}
	v, _ := strconv.Atoi(string(s[:i]))
	return v
}

// parentGoid returns the id of the goroutine that created the calling one
// ("created by f in goroutine N", the last line of its stack), 0 if unknown.
func parentGoid() int {
	b := make([]byte, 1<<16)
	n := runtime.Stack(b, false)
	s := string(b[:n])
	i := strings.LastIndex(s, " in goroutine ")
	if i < 0 || strings.LastIndex(s, "created by ") < 0 {
		return 0
	}
	s = s[i+len(" in goroutine "):]
	j := 0
	for j < len(s) && s[j] >= '0' && s[j] <= '9' {
		j++
	}
	v, _ := strconv.Atoi(s[:j])
	return v
}

// Goid exposes the goroutine id to harness code that wants to correlate seam
// calls made by one goroutine.
func Goid() int { return goid() }
