package verifsim

// YieldHook is called at every synchronisation point that tools/yieldinst
// inserted into the code under test (before lock operations, channel sends,
// selects and closes, and at the top of loop bodies). The harness that owns
// the current run decides there which goroutine proceeds; nil = run on.
var YieldHook func(site string)

// Yield is the call yieldinst inserts.
func Yield(site string) {
	if h := YieldHook; h != nil {
		h(site)
	}
}
