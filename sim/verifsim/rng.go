// Package verifsim is the shared kernel of the deterministic simulator used by
// /verif: seeded PRNG, event log, result records and the worker protocol.
//
// It is compiled into /repo's module through `go test -overlay` (it never
// exists on disk under /repo) and is stdlib-only.
package verifsim

import (
	"time"
)

// RNG is a splitmix64 generator: tiny, fast, and a pure function of its seed.
// It is the only source of randomness of plan generation.
type RNG struct{ s uint64 }

// NewRNG returns a generator for seed.
func NewRNG(seed uint64) *RNG { return &RNG{s: seed} }

// U64 returns the next 64 random bits.
func (r *RNG) U64() uint64 {
	r.s += 0x9e3779b97f4a7c15
	z := r.s
	z = (z ^ (z >> 30)) * 0xbf58476d1ce4e5b9
	z = (z ^ (z >> 27)) * 0x94d049bb133111eb
	return z ^ (z >> 31)
}

// Intn returns a value in [0,n). n<=0 yields 0.
func (r *RNG) Intn(n int) int {
	if n <= 0 {
		return 0
	}
	return int(r.U64() % uint64(n))
}

// Int63n returns a value in [0,n).
func (r *RNG) Int63n(n int64) int64 {
	if n <= 0 {
		return 0
	}
	return int64(r.U64() % uint64(n))
}

// Range returns a value in [lo,hi] inclusive.
func (r *RNG) Range(lo, hi int) int {
	if hi <= lo {
		return lo
	}
	return lo + r.Intn(hi-lo+1)
}

// Float returns a value in [0,1).
func (r *RNG) Float() float64 { return float64(r.U64()>>11) / (1 << 53) }

// Bool is true with probability p.
func (r *RNG) Bool(p float64) bool { return r.Float() < p }

// Dur returns a duration in [lo,hi].
func (r *RNG) Dur(lo, hi time.Duration) time.Duration {
	if hi <= lo {
		return lo
	}
	return lo + time.Duration(r.Int63n(int64(hi-lo)+1))
}

// Pick returns one element index weighted by w.
func (r *RNG) Pick(w ...int) int {
	t := 0
	for _, x := range w {
		t += x
	}
	n := r.Intn(t)
	for i, x := range w {
		if n < x {
			return i
		}
		n -= x
	}
	return len(w) - 1
}

// Fork derives an independent generator (used to keep sub-generators stable
// when another part of a plan generator changes how many draws it makes).
func (r *RNG) Fork() *RNG { return NewRNG(r.U64() ^ 0xa5a5a5a5deadbeef) }

// Perm returns a permutation of [0,n).
func (r *RNG) Perm(n int) []int {
	p := make([]int, n)
	for i := range p {
		p[i] = i
	}
	for i := n - 1; i > 0; i-- {
		j := r.Intn(i + 1)
		p[i], p[j] = p[j], p[i]
	}
	return p
}

// Mix derives the per-run seed from the batch seed, the property id and the
// run index.
func Mix(seed uint64, prop string, index int) uint64 {
	h := seed ^ 0xcbf29ce484222325
	for i := 0; i < len(prop); i++ {
		h ^= uint64(prop[i])
		h *= 0x100000001b3
	}
	r := NewRNG(h ^ (uint64(index)+1)*0x9e3779b97f4a7c15)
	r.U64()
	return r.U64()
}
