package verifsim

import (
	"bufio"
	"bytes"
	"encoding/json"
	"flag"
	"fmt"
	"os"
	"runtime"
	"runtime/debug"
	"sort"
	"strings"
	"testing"
)

// A Violation is one oracle rule that fired.
type Violation struct {
	Prop string `json:"prop"`
	Rule string `json:"rule"` // e.g. "C08.last"
	Sig  string `json:"sig"`  // narrow signature used by known-findings matching and de-duplication
	Msg  string `json:"msg"`
}

// A Result is what one simulated run reports.
type Result struct {
	Prop       string          `json:"prop"`
	Index      int             `json:"index"`
	Seed       uint64          `json:"seed"`
	Class      string          `json:"class,omitempty"` // generator class of the plan (population)
	Hash       string          `json:"hash"`
	Sched      string          `json:"sched"`
	FakeNs     int64           `json:"fake_ns"`
	Events     int             `json:"events"`
	Faults     map[string]int  `json:"faults,omitempty"`
	Probes     map[string]int  `json:"probes,omitempty"`
	Nontrivial bool            `json:"nontrivial"`
	Skipped    string          `json:"skipped,omitempty"` // e.g. "config_rejected"
	Violations []Violation     `json:"violations,omitempty"`
	Leaked     int             `json:"leaked,omitempty"`
	LeakStacks string          `json:"leak_stacks,omitempty"`
	Plan       json.RawMessage `json:"plan,omitempty"`
	Head       []Event         `json:"head,omitempty"`
	Log        []Event         `json:"log,omitempty"`
}

// Violate appends a violation.
func (r *Result) Violate(rule, sig, format string, a ...any) {
	prop := rule
	if i := strings.IndexByte(rule, '.'); i > 0 {
		prop = rule[:i]
	}
	// Keep at most 5 per rule: the first is what gets minimised, the rest is noise.
	n := 0
	for _, v := range r.Violations {
		if v.Rule == rule {
			n++
		}
	}
	if n >= 5 {
		return
	}
	r.Violations = append(r.Violations, Violation{Prop: prop, Rule: rule, Sig: sig, Msg: fmt.Sprintf(format, a...)})
}

// Probe counts a "this condition was reached" observation.
func (r *Result) Probe(name string) {
	if r.Probes == nil {
		r.Probes = map[string]int{}
	}
	r.Probes[name]++
}

// Fault counts an injected fault that actually took effect.
func (r *Result) Fault(name string) {
	if r.Faults == nil {
		r.Faults = map[string]int{}
	}
	r.Faults[name]++
}

// A Handler implements one property in one package's harness.
type Handler struct {
	// Enum is the number of leading indices that enumerate a deterministic
	// corpus in the given tier (0 = none). Indices >= Enum are seeded-random.
	Enum func(tier string) int
	// Gen produces the plan for run index idx. rng is seeded from
	// Mix(seed, prop, idx). The plan must be JSON-serialisable and complete: Exec
	// sees nothing but its JSON.
	Gen func(rng *RNG, idx int, tier string) any
	// Exec runs one plan (inside a fresh synctest bubble) and evaluates the
	// oracles of the property. It must fill everything except
	// Prop/Index/Seed/Plan.
	Exec func(t *testing.T, plan []byte, res *Result)
}

var (
	fProp     = flag.String("sim.prop", "", "property id")
	fSeed     = flag.Uint64("sim.seed", 1, "batch seed (VERIF_SEED)")
	fFrom     = flag.Int("sim.from", 0, "first run index")
	fTo       = flag.Int("sim.to", 0, "one past the last run index")
	fStride   = flag.Int("sim.stride", 1, "index stride (worker k of n runs from+k, from+k+n, …)")
	fTier     = flag.String("sim.tier", "quick", "quick|thorough")
	fPlan     = flag.String("sim.plan", "", "execute this plan file instead of generating")
	fOut      = flag.String("sim.out", "", "write JSON lines here (default stdout)")
	fInfo     = flag.Bool("sim.info", false, "print handler info and exit")
	fPlanOnly = flag.Bool("sim.planonly", false, "emit the generated plans without executing them")
	fSamples  = flag.Int("sim.samples", 0, "attach plan and event-log head to the first N non-trivial results")
	fDump     = flag.Bool("sim.dump", false, "attach the complete event log to every result")
)

// leakExit is installed by WorkerMain for the run in progress.
var leakExit func(res *Result)

// LeakExit must be called from inside the bubble, after the oracles have run,
// when goroutines of the bubble are still alive at the end of a run: leaving
// the bubble would panic and poison the process, so the result is emitted and
// the worker exits with status 3 (the runner starts a fresh worker).
func LeakExit(res *Result) { leakExit(res) }

// Dump reports whether complete logs were requested.
func Dump() bool { return *fDump }

// WorkerMain is called from each harness package's TestSim.
func WorkerMain(t *testing.T, handlers map[string]Handler) {
	if *fProp == "" && *fPlan == "" && !*fInfo {
		t.Skip("simulator worker: no -sim.prop given")
	}
	if runtime.GOMAXPROCS(0) != 1 && os.Getenv("VERIF_ALLOW_PROCS") == "" {
		runtime.GOMAXPROCS(1)
	}

	out := os.Stdout
	if *fOut != "" {
		f, err := os.OpenFile(*fOut, os.O_CREATE|os.O_WRONLY|os.O_APPEND, 0o644)
		if err != nil {
			fmt.Fprintf(os.Stderr, "sim: %v\n", err)
			os.Exit(2)
		}
		defer f.Close()
		out = f
	}
	w := bufio.NewWriterSize(out, 1<<16)
	emit := func(v any) {
		b, err := json.Marshal(v)
		if err != nil {
			fmt.Fprintf(os.Stderr, "sim: marshal: %v\n", err)
			os.Exit(2)
		}
		w.Write(b)
		w.WriteByte('\n')
	}
	defer w.Flush()

	if *fInfo {
		info := map[string]any{}
		var names []string
		for k := range handlers {
			names = append(names, k)
		}
		sort.Strings(names)
		for _, k := range names {
			h := handlers[k]
			e := map[string]int{"quick": 0, "thorough": 0}
			if h.Enum != nil {
				e["quick"], e["thorough"] = h.Enum("quick"), h.Enum("thorough")
			}
			info[k] = e
		}
		emit(map[string]any{"info": info})
		return
	}

	runOne := func(h Handler, prop string, idx int, seed uint64, plan []byte) {
		res := &Result{Prop: prop, Index: idx, Seed: seed}
		// BEGIN marker: lets the runner attribute a crash or hang to a run.
		emit(map[string]any{"begin": idx, "prop": prop})
		w.Flush()
		done := func() {
			if len(res.Violations) > 0 || res.Leaked > 0 {
				res.Plan = plan
			} else if *fSamples > 0 && res.Nontrivial {
				*fSamples--
				res.Plan = plan
			} else {
				res.Head = nil
			}
			emit(res)
			w.Flush()
		}
		// The Go scheduler is deterministic on one P as long as nothing preempts
		// a goroutine: a GC cycle does (stop-the-world moves the running goroutine
		// to the back of the queue), so the collector only runs between runs.
		runtime.GC()
		old := debug.SetGCPercent(-1)
		defer debug.SetGCPercent(old)
		leakExit = func(r *Result) {
			// A bubble that ends with blocked goroutines poisons the process
			// (the next bubble hangs). Flush and let the runner start a fresh
			// worker for the remaining indices.
			done()
			os.Exit(3)
		}
		h.Exec(t, plan, res)
		done()
	}

	if *fPlan != "" {
		b, err := os.ReadFile(*fPlan)
		if err != nil {
			fmt.Fprintf(os.Stderr, "sim: %v\n", err)
			os.Exit(2)
		}
		// A replay file wraps the plan; a bare plan is accepted too.
		var wrap struct {
			Property string          `json:"property"`
			Plan     json.RawMessage `json:"plan"`
		}
		if json.Unmarshal(b, &wrap) == nil && len(wrap.Plan) > 0 {
			b = wrap.Plan
		}
		var hdr struct {
			Prop string `json:"prop"`
		}
		if err := json.Unmarshal(b, &hdr); err != nil {
			fmt.Fprintf(os.Stderr, "sim: bad plan: %v\n", err)
			os.Exit(2)
		}
		prop := hdr.Prop
		if *fProp != "" {
			prop = *fProp
		}
		h, ok := handlers[prop]
		if !ok {
			fmt.Fprintf(os.Stderr, "sim: no handler for %q in this package\n", prop)
			os.Exit(2)
		}
		var cb bytes.Buffer
		if err := json.Compact(&cb, b); err != nil {
			os.Exit(2)
		}
		runOne(h, prop, -1, 0, cb.Bytes())
		return
	}

	h, ok := handlers[*fProp]
	if !ok {
		fmt.Fprintf(os.Stderr, "sim: no handler for %q in this package\n", *fProp)
		os.Exit(2)
	}
	stride := *fStride
	if stride < 1 {
		stride = 1
	}
	for idx := *fFrom; idx < *fTo; idx += stride {
		seed := Mix(*fSeed, *fProp, idx)
		p := h.Gen(NewRNG(seed), idx, *fTier)
		b, err := json.Marshal(p)
		if err != nil {
			fmt.Fprintf(os.Stderr, "sim: plan marshal: %v\n", err)
			os.Exit(2)
		}
		if *fPlanOnly {
			emit(map[string]any{"index": idx, "seed": seed, "plan": json.RawMessage(b)})
			continue
		}
		runOne(h, *fProp, idx, seed, b)
	}
}
