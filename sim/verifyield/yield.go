// Package verifyield is the schedule seam of the simulation build: the call
// tools/yieldinst inserts at synchronisation points of the code under test
// (before lock operations, channel sends, selects and closes, and at the top of
// loop bodies). It lives outside internal/ so that instrumented copies of
// dependencies (schedgroup) can import it too. It only exists in the overlay
// the runner builds with; nothing in /repo refers to it.
package verifyield

import "sync"

// Hook is set by the harness that owns the current run; nil = run on.
var Hook func(site string)

// Yield is the inserted call.
func Yield(site string) {
	if h := Hook; h != nil {
		h(site)
	}
}

// Cooperative locks. In the copies tools/yieldinst makes in "coop" mode, Lock,
// RLock, Unlock and RUnlock on the package's own sync.Mutex / sync.RWMutex
// values go through the functions below. The lock is still the real one
// (TryLock / Unlock on the very same value, so un-instrumented users of it
// keep working); what changes is how a goroutine WAITS for it: on a channel
// instead of inside sync.Mutex.Lock. testing/synctest counts the former as
// durably blocked and the latter not, so without this a lock held across a
// simulated slow system call stops the fake clock for good (a real-time hang
// of the run) instead of delaying the others in fake time as it does on a real
// system.


var (
	wmu     sync.Mutex // never held across anything that blocks
	waiters = map[any][]chan struct{}{}
)

func lockLoop(k any, try func() bool) {
	for {
		if try() {
			return
		}
		ch := make(chan struct{})
		wmu.Lock()
		waiters[k] = append(waiters[k], ch)
		wmu.Unlock()
		// an unlock between the failed attempt and the registration must not be
		// lost: try once more (a stale channel is closed by the next wake-up)
		if try() {
			return
		}
		<-ch
	}
}

func wake(k any) {
	wmu.Lock()
	l := waiters[k]
	delete(waiters, k)
	wmu.Unlock()
	for _, ch := range l {
		close(ch)
	}
}

// Lock is l.Lock().
func Lock(l any) {
	switch m := l.(type) {
	case *sync.Mutex:
		lockLoop(m, m.TryLock)
	case *sync.RWMutex:
		lockLoop(m, m.TryLock)
	default:
		l.(interface{ Lock() }).Lock()
	}
}

// RLock is l.RLock().
func RLock(l any) {
	if m, ok := l.(*sync.RWMutex); ok {
		lockLoop(m, m.TryRLock)
		return
	}
	l.(interface{ RLock() }).RLock()
}

// Unlock is l.Unlock().
func Unlock(l any) {
	l.(interface{ Unlock() }).Unlock()
	wake(l)
}

// RUnlock is l.RUnlock().
func RUnlock(l any) {
	l.(interface{ RUnlock() }).RUnlock()
	wake(l)
}
