// Package verifyield is the schedule seam of the simulation build: the call
// tools/yieldinst inserts at synchronisation points of the code under test
// (before lock operations, channel sends, selects and closes, and at the top of
// loop bodies). It lives outside internal/ so that instrumented copies of
// dependencies (schedgroup) can import it too. It only exists in the overlay
// the runner builds with; nothing in /repo refers to it.
package verifyield

// Hook is set by the harness that owns the current run; nil = run on.
var Hook func(site string)

// Yield is the inserted call.
func Yield(site string) {
	if h := Hook; h != nil {
		h(site)
	}
}
