//go:debug asynctimerchan=0

package netstate

// Deterministic simulation of the link-state Watcher (C19): the real Watcher,
// Subscribe, notify and process() with a simulated rtnetlink event source,
// checked operation by operation against a bounded-FIFO model.
// See /verif/DESIGN.md.

import (
	"context"
	"encoding/json"
	"errors"
	"fmt"
	"os"
	"runtime"
	"strings"
	"sync"
	"testing"
	"testing/synctest"
	"time"

	"github.com/jsimonetti/rtnetlink"
	"github.com/mdlayher/corerad/internal/verifsim"
)

// A WPlan is one simulated run of a Watcher.
type WPlan struct {
	Prop   string `json:"prop"`
	Class  string `json:"class,omitempty"`
	Offset int64  `json:"offset,omitempty"`
	Cancel uint64 `json:"cancel,omitempty"`
	Ops    []WOp  `json:"ops"`
}

// A WOp is one operation on the watcher.
type WOp struct {
	Kind string `json:"kind"` // sub emit drain end watch2
	If   string `json:"if,omitempty"`
	Mask uint   `json:"mask,omitempty"`
	Sub  int    `json:"sub,omitempty"` // subscriber index (order of sub ops)
	K    int    `json:"k,omitempty"`   // drain: how many
	Msgs []WMsg `json:"msgs,omitempty"`
	End  string `json:"end,omitempty"` // nil error cancel
}

// A WMsg is one rtnetlink message of an emitted batch.
type WMsg struct {
	If      string `json:"if,omitempty"`
	Oper    int    `json:"oper"`
	NoAttr  bool   `json:"noattr,omitempty"`
	NotLink bool   `json:"notlink,omitempty"`
}

var operOf = map[Change]rtnetlink.OperationalState{
	LinkUp: rtnetlink.OperStateUp, LinkDown: rtnetlink.OperStateDown, LinkTesting: rtnetlink.OperStateTesting,
	LinkUnknown: rtnetlink.OperStateUnknown, LinkDormant: rtnetlink.OperStateDormant,
	LinkNotPresent: rtnetlink.OperStateNotPresent, LinkLowerLayerDown: rtnetlink.OperStateLowerLayerDown,
}

var allChanges = []Change{LinkUp, LinkDown, LinkTesting, LinkUnknown, LinkDormant, LinkNotPresent, LinkLowerLayerDown}

// changeOfOper is the documented RFC 2863 ifOperStatus mapping (model side).
func changeOfOper(o int) (Change, bool) {
	for c, s := range operOf {
		if int(s) == o {
			return c, true
		}
	}
	return 0, false
}

func (m WMsg) message() rtnetlink.Message {
	if m.NotLink {
		return &rtnetlink.AddressMessage{}
	}
	if m.NoAttr {
		return &rtnetlink.LinkMessage{}
	}
	return &rtnetlink.LinkMessage{Attributes: &rtnetlink.LinkAttributes{Name: m.If, OperationalState: rtnetlink.OperationalState(m.Oper)}}
}

type modelSub struct {
	ifn      string
	mask     Change
	q        []Change
	afterEnd bool
}

func execWPlan(t *testing.T, p *WPlan, res *verifsim.Result, after func(ev []verifsim.Event)) {
	synctest.Test(t, func(t *testing.T) {
		if p.Offset > 0 {
			time.Sleep(time.Duration(p.Offset))
		}
		context.VerifCancelSeed = p.Cancel
		lg := verifsim.NewLog(time.Now())
		w := NewWatcher()
		emitC := make(chan []rtnetlink.Message)
		ackC := make(chan struct{}, 1)
		endC := make(chan error)
		w.watch = func(ctx context.Context, notify func(changeSet)) error {
			for {
				select {
				case msgs := <-emitC:
					notify(process(msgs))
					ackC <- struct{}{}
				case err := <-endC:
					return err
				case <-ctx.Done():
					return nil
				}
			}
		}
		ctx, cancel := context.WithCancel(context.Background())
		watchDone := make(chan struct{})
		go func() {
			defer close(watchDone)
			err := w.Watch(ctx)
			e := verifsim.Event{K: "watch.return"}
			if err != nil {
				e.Err = err.Error()
			}
			lg.Add(e)
		}()
		synctest.Wait()

		var subs []<-chan Change
		var model []*modelSub
		ended := false
		leaked := false
		violate := func(rule, sig, f string, a ...any) { res.Violate(rule, sig, f, a...) }

		// check compares what a subscriber's channel yields with the model, taking up to k values.
		drain := func(i, k int, toEnd bool) {
			ch, m := subs[i], model[i]
			for n := 0; n < k; n++ {
				select {
				case c, ok := <-ch:
					if !ok {
						lg.Add(verifsim.Event{K: "closed", V: int64(i)})
						if !ended {
							violate("C19.close", "early", "subscriber %d: channel closed although watching has not ended", i)
						} else if len(m.q) > 0 {
							violate("C19.iff", "lost", "subscriber %d: channel closed with %d expected notifications undelivered %v", i, len(m.q), m.q)
						}
						m.q = nil
						return
					}
					lg.Add(verifsim.Event{K: "recv", V: int64(i), S: c.String()})
					if len(m.q) == 0 {
						violate("C19.iff", "unexpected", "subscriber %d (%s mask %s) received %q, but no matching change is outstanding", i, m.ifn, m.mask, c)
						continue
					}
					if m.q[0] != c {
						violate("C19.iff", "order", "subscriber %d (%s mask %s) received %q, expected %q next (pending %v)", i, m.ifn, m.mask, c, m.q[0], m.q)
					}
					m.q = m.q[1:]
				default:
					if len(m.q) > 0 && !toEnd {
						violate("C19.iff", "missing", "subscriber %d (%s mask %s): channel is empty but %v should be pending", i, m.ifn, m.mask, m.q)
						m.q = nil
					}
					if toEnd && ended && !m.afterEnd {
						violate("C19.close", "not-closed", "subscriber %d: channel not closed after watching ended", i)
					}
					return
				}
			}
		}

		for oi := range p.Ops {
			op := &p.Ops[oi]
			switch op.Kind {
			case "sub":
				ch := w.Subscribe(op.If, Change(op.Mask))
				subs = append(subs, ch)
				model = append(model, &modelSub{ifn: op.If, mask: Change(op.Mask), afterEnd: ended})
				lg.Add(verifsim.Event{K: "sub", If: op.If, V: int64(op.Mask)})
			case "emit":
				if ended {
					continue
				}
				var msgs []rtnetlink.Message
				var desc []string
				for _, m := range op.Msgs {
					msgs = append(msgs, m.message())
					desc = append(desc, fmt.Sprintf("%s:%d", m.If, m.Oper))
					c, ok := changeOfOper(m.Oper)
					if m.NotLink || m.NoAttr || !ok {
						continue
					}
					for _, s := range model {
						if s.ifn == m.If && s.mask&c != 0 && len(s.q) < 8 {
							s.q = append(s.q, c)
						} else if s.ifn == m.If && s.mask&c != 0 {
							res.Probe("dropped_on_full_buffer")
						}
					}
				}
				lg.Add(verifsim.Event{K: "emit", S: strings.Join(desc, " ")})
				emitC <- msgs
				synctest.Wait()
				select {
				case <-ackC:
				default:
					violate("C19.block", "block", "the watcher did not come back from notifying %v: it is blocked on a subscriber", desc)
					leaked = true
				}
			case "drain":
				if op.Sub < len(subs) {
					drain(op.Sub, op.K, false)
				}
			case "end":
				if ended {
					continue
				}
				ended = true
				lg.Add(verifsim.Event{K: "end", S: op.End})
				switch op.End {
				case "cancel":
					cancel()
				case "error":
					endC <- errors.New("netlink receive: no buffer space available")
				default:
					endC <- nil
				}
				synctest.Wait()
				select {
				case <-watchDone:
				default:
					violate("C19.close", "watch-hangs", "Watch did not return after its source ended (%s)", op.End)
					leaked = true
				}
			case "watch2":
				// a second Watch on the same Watcher must be refused
				func() {
					refused := false
					done := make(chan struct{})
					go func() {
						defer close(done)
						defer func() {
							if r := recover(); r != nil {
								refused = true
							}
						}()
						c2, cancel2 := context.WithCancel(context.Background())
						cancel2()
						_ = w.Watch(c2)
					}()
					synctest.Wait()
					select {
					case <-done:
						if !refused {
							violate("C19.single", "single", "a second Watch on the same Watcher was not refused")
						}
					default:
						violate("C19.single", "single-hangs", "a second Watch on the same Watcher neither returned nor was refused")
						leaked = true
					}
				}()
			}
			if leaked {
				break
			}
		}
		if !leaked {
			if !ended {
				ended = true
				cancel()
				synctest.Wait()
				select {
				case <-watchDone:
				default:
					violate("C19.close", "watch-hangs", "Watch did not return after cancellation")
					leaked = true
				}
			}
			for i := range subs {
				drain(i, 100, true)
			}
		}
		cancel()
		lg.Add(verifsim.Event{K: "act.final"})
		ev := lg.Events()
		res.FakeNs = lg.Now()
		res.Nontrivial = len(subs) > 0
		after(ev)
		if leaked {
			res.Leaked = 1
			res.LeakStacks = "watcher goroutine blocked"
			verifsim.LeakExit(res)
		}
	})
}

// ---------------------------------------------------------------- generators

const nMasks = 127

func c19Enum(tier string) int { return nMasks * 7 * 2 }

func c19Gen(rng *verifsim.RNG, idx int, tier string) any {
	p := &WPlan{Prop: "C19", Offset: rng.Int63n(int64(time.Hour))}
	if rng.Bool(0.5) {
		p.Cancel = rng.U64()>>1 | 1
	}
	if idx < c19Enum(tier) {
		// Exhaustive single-event table: every non-empty mask x every link state x {matching, other} interface.
		p.Class = "single-event-table"
		mask := uint(idx%nMasks) + 1
		st := allChanges[(idx/nMasks)%7]
		ifn := []string{"eth0", "eth1"}[idx/(nMasks*7)]
		p.Ops = []WOp{
			{Kind: "sub", If: "eth0", Mask: mask},
			{Kind: "emit", Msgs: []WMsg{{If: ifn, Oper: int(operOf[st])}}},
			{Kind: "drain", Sub: 0, K: 2},
		}
		return p
	}
	p.Class = "random"
	ifs := []string{"eth0", "eth1", "wan0"}
	nsub := 0
	n := rng.Range(3, 40)
	undrained := rng.Bool(0.3) // leave subscribers undrained: up to 30 pending events
	for i := 0; i < n; i++ {
		switch rng.Pick(3, 8, 4, 1, 1) {
		case 0:
			m := uint(rng.Range(1, nMasks))
			if rng.Bool(0.3) {
				m = uint(LinkDown)
			}
			if rng.Bool(0.1) {
				m = uint(LinkAny)
			}
			p.Ops = append(p.Ops, WOp{Kind: "sub", If: ifs[rng.Intn(len(ifs))], Mask: m})
			nsub++
		case 1:
			var msgs []WMsg
			for j, k := 0, rng.Range(1, 6); j < k; j++ {
				m := WMsg{If: ifs[rng.Intn(len(ifs))], Oper: int(operOf[allChanges[rng.Intn(7)]])}
				switch rng.Intn(12) {
				case 0:
					m.Oper = 200 // unknown operstate
				case 1:
					m.NoAttr = true
				case 2:
					m.NotLink = true
				}
				msgs = append(msgs, m)
			}
			p.Ops = append(p.Ops, WOp{Kind: "emit", Msgs: msgs})
		case 2:
			if nsub > 0 && !undrained {
				p.Ops = append(p.Ops, WOp{Kind: "drain", Sub: rng.Intn(nsub), K: rng.Range(1, 10)})
			}
		case 3:
			p.Ops = append(p.Ops, WOp{Kind: "end", End: []string{"nil", "error", "cancel"}[rng.Intn(3)]})
		default:
			p.Ops = append(p.Ops, WOp{Kind: "watch2"})
		}
	}
	return p
}

// ---------------------------------------------------------------- race run

// TestRace is the auxiliary check outside the simulation family: the same
// operation mix on real parallel goroutines under -race. A reported data race
// fails it; silence proves nothing.
func TestRace(t *testing.T) {
	if os.Getenv("VERIF_RACE") == "" {
		t.Skip("auxiliary race run: set VERIF_RACE=1")
	}
	deadline := time.Now().Add(3 * time.Second)
	for round := 0; time.Now().Before(deadline); round++ {
		w := NewWatcher()
		emitC := make(chan changeSet)
		w.watch = func(ctx context.Context, notify func(changeSet)) error {
			for {
				select {
				case cs := <-emitC:
					notify(cs)
				case <-ctx.Done():
					return nil
				}
			}
		}
		ctx, cancel := context.WithCancel(context.Background())
		var wg sync.WaitGroup
		wg.Add(1)
		go func() { defer wg.Done(); _ = w.Watch(ctx) }()
		for g := 0; g < 4; g++ {
			wg.Add(1)
			go func(g int) {
				defer wg.Done()
				for i := 0; i < 50; i++ {
					ch := w.Subscribe(fmt.Sprintf("eth%d", i%3), Change(1+(i+g)%127))
					select {
					case <-ch:
					default:
					}
					runtime.Gosched()
				}
			}(g)
		}
		wg.Add(1)
		go func() {
			defer wg.Done()
			for i := 0; i < 100; i++ {
				select {
				case emitC <- changeSet{fmt.Sprintf("eth%d", i%3): {allChanges[i%7], allChanges[(i+3)%7]}}:
				case <-ctx.Done():
					return
				}
			}
		}()
		time.Sleep(2 * time.Millisecond)
		cancel()
		wg.Wait()
	}
}

// ------------------------------------------------------------------ registry

func TestSim(t *testing.T) {
	verifsim.WorkerMain(t, map[string]verifsim.Handler{
		"C19": {
			Enum: c19Enum,
			Gen:  c19Gen,
			Exec: func(t *testing.T, plan []byte, res *verifsim.Result) {
				var p WPlan
				if err := json.Unmarshal(plan, &p); err != nil {
					fmt.Fprintf(os.Stderr, "sim: bad plan: %v\n", err)
					os.Exit(2)
				}
				execWPlan(t, &p, res, func(ev []verifsim.Event) {
					res.Events = len(ev)
					res.Hash = verifsim.Hash(ev)
					res.Sched = verifsim.SchedSig(ev)
					res.Class = p.Class
					n := len(ev)
					if n > 40 {
						n = 40
					}
					res.Head = ev[:n]
					if verifsim.Dump() {
						res.Log = ev
					}
				})
			},
		},
	})
}
