//go:debug asynctimerchan=0

package netstate

// Deterministic simulation of the link-state Watcher (C19): the real Watcher,
// Subscribe, notify and process() with a simulated rtnetlink event source,
// checked operation by operation against a bounded-FIFO model.
// See /verif/DESIGN.md.

import (
	"context"
	"encoding/json"
	"errors"
	"fmt"
	"os"
	"runtime"
	"strings"
	"sync"
	"testing"
	"testing/synctest"
	"time"

	"github.com/jsimonetti/rtnetlink"
	"github.com/mdlayher/corerad/internal/verifsim"
	"github.com/mdlayher/corerad/verifyield"
)

// A WPlan is one simulated run of a Watcher.
type WPlan struct {
	Prop   string `json:"prop"`
	Class  string `json:"class,omitempty"`
	Offset int64  `json:"offset,omitempty"`
	Cancel uint64 `json:"cancel,omitempty"`
	Ops    []WOp  `json:"ops"`
}

// A WOp is one operation on the watcher.
type WOp struct {
	Kind string `json:"kind"` // sub emit drain end watch2
	If   string `json:"if,omitempty"`
	Mask uint   `json:"mask,omitempty"`
	Sub  int    `json:"sub,omitempty"` // subscriber index (order of sub ops)
	K    int    `json:"k,omitempty"`   // drain: how many
	Msgs []WMsg `json:"msgs,omitempty"`
	End  string `json:"end,omitempty"` // nil error cancel
	// par: operations (sub, emit, end) issued by concurrent callers; Sched is
	// the list of choices the scheduler makes among the goroutines parked at a
	// synchronisation point (choice mod number parked; exhausted = the first).
	Par   []WOp `json:"par,omitempty"`
	Sched []int `json:"sched,omitempty"`
}

// A WMsg is one rtnetlink message of an emitted batch.
type WMsg struct {
	If      string `json:"if,omitempty"`
	Oper    int    `json:"oper"`
	NoAttr  bool   `json:"noattr,omitempty"`
	NotLink bool   `json:"notlink,omitempty"`
}

var operOf = map[Change]rtnetlink.OperationalState{
	LinkUp: rtnetlink.OperStateUp, LinkDown: rtnetlink.OperStateDown, LinkTesting: rtnetlink.OperStateTesting,
	LinkUnknown: rtnetlink.OperStateUnknown, LinkDormant: rtnetlink.OperStateDormant,
	LinkNotPresent: rtnetlink.OperStateNotPresent, LinkLowerLayerDown: rtnetlink.OperStateLowerLayerDown,
}

var allChanges = []Change{LinkUp, LinkDown, LinkTesting, LinkUnknown, LinkDormant, LinkNotPresent, LinkLowerLayerDown}

// changeOfOper is the documented RFC 2863 ifOperStatus mapping (model side).
func changeOfOper(o int) (Change, bool) {
	for c, s := range operOf {
		if int(s) == o {
			return c, true
		}
	}
	return 0, false
}

func (m WMsg) message() rtnetlink.Message {
	if m.NotLink {
		return &rtnetlink.AddressMessage{}
	}
	if m.NoAttr {
		return &rtnetlink.LinkMessage{}
	}
	return &rtnetlink.LinkMessage{Attributes: &rtnetlink.LinkAttributes{Name: m.If, OperationalState: rtnetlink.OperationalState(m.Oper)}}
}

type modelSub struct {
	ifn      string
	mask     Change
	q        []Change
	afterEnd bool
}

func execWPlan(t *testing.T, p *WPlan, res *verifsim.Result, after func(ev []verifsim.Event)) {
	synctest.Test(t, func(t *testing.T) {
		if p.Offset > 0 {
			time.Sleep(time.Duration(p.Offset))
		}
		context.VerifCancelSeed = p.Cancel
		context.VerifSetMapSeed(p.Cancel ^ uint64(p.Offset))
		lg := verifsim.NewLog(time.Now())
		w := NewWatcher()
		emitC := make(chan []rtnetlink.Message)
		ackC := make(chan struct{}, 1)
		endC := make(chan error)
		w.watch = func(ctx context.Context, notify func(changeSet)) error {
			for {
				select {
				case msgs := <-emitC:
					notify(process(msgs))
					ackC <- struct{}{}
				case err := <-endC:
					return err
				case <-ctx.Done():
					return nil
				}
			}
		}
		ctx, cancel := context.WithCancel(context.Background())
		watchDone := make(chan struct{})
		sc := &sched{parts: map[int]*participant{}}
		verifyield.Hook = sc.yield
		defer func() { verifyield.Hook = nil }()
		go func() {
			defer close(watchDone)
			sc.register("watcher")
			err := w.Watch(ctx)
			e := verifsim.Event{K: "watch.return"}
			if err != nil {
				e.Err = err.Error()
			}
			lg.Add(e)
		}()
		synctest.Wait()

		var subs []<-chan Change
		var model []*modelSub
		ended := false
		leaked := false
		violate := func(rule, sig, f string, a ...any) { res.Violate(rule, sig, f, a...) }

		// check compares what a subscriber's channel yields with the model, taking up to k values.
		drain := func(i, k int, toEnd bool) {
			ch, m := subs[i], model[i]
			for n := 0; n < k; n++ {
				select {
				case c, ok := <-ch:
					if !ok {
						lg.Add(verifsim.Event{K: "closed", V: int64(i)})
						if !ended {
							violate("C19.close", "early", "subscriber %d: channel closed although watching has not ended", i)
						} else if len(m.q) > 0 {
							violate("C19.iff", "lost", "subscriber %d: channel closed with %d expected notifications undelivered %v", i, len(m.q), m.q)
						}
						m.q = nil
						return
					}
					lg.Add(verifsim.Event{K: "recv", V: int64(i), S: c.String()})
					if len(m.q) == 0 {
						violate("C19.iff", "unexpected", "subscriber %d (%s mask %s) received %q, but no matching change is outstanding", i, m.ifn, m.mask, c)
						continue
					}
					if m.q[0] != c {
						violate("C19.iff", "order", "subscriber %d (%s mask %s) received %q, expected %q next (pending %v)", i, m.ifn, m.mask, c, m.q[0], m.q)
					}
					m.q = m.q[1:]
				default:
					if len(m.q) > 0 && !toEnd {
						violate("C19.iff", "missing", "subscriber %d (%s mask %s): channel is empty but %v should be pending", i, m.ifn, m.mask, m.q)
						m.q = nil
					}
					if toEnd && ended && !m.afterEnd {
						violate("C19.close", "not-closed", "subscriber %d: channel not closed after watching ended", i)
					}
					return
				}
			}
		}

		for oi := range p.Ops {
			op := &p.Ops[oi]
			switch op.Kind {
			case "sub":
				ch := w.Subscribe(op.If, Change(op.Mask))
				subs = append(subs, ch)
				model = append(model, &modelSub{ifn: op.If, mask: Change(op.Mask), afterEnd: ended})
				lg.Add(verifsim.Event{K: "sub", If: op.If, V: int64(op.Mask)})
			case "emit":
				if ended {
					continue
				}
				var msgs []rtnetlink.Message
				var desc []string
				for _, m := range op.Msgs {
					msgs = append(msgs, m.message())
					desc = append(desc, fmt.Sprintf("%s:%d", m.If, m.Oper))
					c, ok := changeOfOper(m.Oper)
					if m.NotLink || m.NoAttr || !ok {
						continue
					}
					for _, s := range model {
						if s.ifn == m.If && s.mask&c != 0 && len(s.q) < 8 {
							s.q = append(s.q, c)
						} else if s.ifn == m.If && s.mask&c != 0 {
							res.Probe("dropped_on_full_buffer")
						}
					}
				}
				lg.Add(verifsim.Event{K: "emit", S: strings.Join(desc, " ")})
				emitC <- msgs
				synctest.Wait()
				select {
				case <-ackC:
				default:
					violate("C19.block", "block", "the watcher did not come back from notifying %v: it is blocked on a subscriber", desc)
					leaked = true
				}
			case "drain":
				if op.Sub < len(subs) {
					drain(op.Sub, op.K, false)
				}
			case "end":
				if ended {
					continue
				}
				ended = true
				lg.Add(verifsim.Event{K: "end", S: op.End})
				switch op.End {
				case "cancel":
					cancel()
				case "error":
					endC <- errors.New("netlink receive: no buffer space available")
				default:
					endC <- nil
				}
				synctest.Wait()
				select {
				case <-watchDone:
				default:
					violate("C19.close", "watch-hangs", "Watch did not return after its source ended (%s)", op.End)
					leaked = true
				}
			case "par":
				if ended {
					continue
				}
				if !runPar(op, sc, lg, w, &subs, &model, &ended, emitC, ackC, endC, watchDone, cancel, res) {
					leaked = true
				}
			case "watch2":
				// a second Watch on the same Watcher must be refused
				func() {
					refused := false
					done := make(chan struct{})
					go func() {
						defer close(done)
						defer func() {
							if r := recover(); r != nil {
								refused = true
							}
						}()
						c2, cancel2 := context.WithCancel(context.Background())
						cancel2()
						_ = w.Watch(c2)
					}()
					synctest.Wait()
					select {
					case <-done:
						if !refused {
							violate("C19.single", "single", "a second Watch on the same Watcher was not refused")
						}
					default:
						violate("C19.single", "single-hangs", "a second Watch on the same Watcher neither returned nor was refused")
						leaked = true
					}
				}()
			}
			if leaked {
				break
			}
		}
		if !leaked {
			if !ended {
				ended = true
				cancel()
				synctest.Wait()
				select {
				case <-watchDone:
				default:
					violate("C19.close", "watch-hangs", "Watch did not return after cancellation")
					leaked = true
				}
			}
			for i := range subs {
				drain(i, 100, true)
			}
		}
		cancel()
		lg.Add(verifsim.Event{K: "act.final"})
		ev := lg.Events()
		res.FakeNs = lg.Now()
		res.Nontrivial = len(subs) > 0
		after(ev)
		if leaked {
			res.Leaked = 1
			res.LeakStacks = "watcher goroutine blocked"
			verifsim.LeakExit(res)
		}
	})
}

// ------------------------------------------------------- concurrent callers

// A participant is a goroutine whose progress through the instrumented
// synchronisation points the scheduler decides.
type participant struct {
	id     int
	name   string
	wake   chan struct{}
	parked bool
	done   bool
	site   string
}

// sched parks every participant at every yield point while a "par" operation
// runs, and releases one at a time.
type sched struct {
	active bool
	parts  map[int]*participant // by goroutine id
	order  []*participant
	ticks  int // progress counter: yields reached, operations finished
}

func (s *sched) register(name string) *participant {
	p := &participant{id: len(s.order), name: name, wake: make(chan struct{})}
	s.parts[verifsim.Goid()] = p
	s.order = append(s.order, p)
	return p
}

func (s *sched) yield(site string) {
	if !s.active {
		return
	}
	p := s.parts[verifsim.Goid()]
	if p == nil {
		return
	}
	p.parked, p.site = true, site
	s.ticks++
	<-p.wake
	p.parked = false
}

// settle lets every runnable goroutine run until it parks, blocks or ends.
// Workers have one P and are never preempted, so a goroutine that yields the
// processor gets it back only after all others have stopped; blocking on a
// sync.Mutex is invisible to synctest.Wait, which is why it is not used here.
func (s *sched) settle() {
	for calm := 0; calm < 4; {
		before := s.ticks
		runtime.Gosched()
		if s.ticks == before {
			calm++
		} else {
			calm = 0
		}
	}
}

type parCall struct {
	op       *WOp
	p        *participant
	inv, ret int // event sequence numbers of invocation and return (0 = never returned)
	skipped  bool
	sub      int // index of the subscription a "sub" call created
	ch       <-chan Change
}

type subObs struct {
	got    []Change
	closed bool
}

// runPar runs one group of concurrent calls under the scheduler and checks the
// outcome against every sequential order of the calls that respects the order
// in which they were seen to return and start: the outcome must be that of at
// least one of them (linearizability against the bounded-FIFO model). It
// returns false if goroutines are stuck.
func runPar(op *WOp, sc *sched, lg *verifsim.Log, w *Watcher, subs *[]<-chan Change, model *[]*modelSub, ended *bool,
	emitC chan []rtnetlink.Message, ackC chan struct{}, endC chan error, watchDone chan struct{}, cancel func(), res *verifsim.Result) bool {
	calls := make([]*parCall, len(op.Par))
	base := len(*subs)
	nsub := 0
	sc.active = true
	finished := 0
	for i := range op.Par {
		i := i
		c := &parCall{op: &op.Par[i]}
		calls[i] = c
		if c.op.Kind == "sub" {
			c.sub = base + nsub
			nsub++
		}
		started := make(chan struct{})
		go func() {
			c.p = sc.register(fmt.Sprintf("%s#%d", c.op.Kind, i))
			close(started)
			sc.yield("start")
			c.inv = lg.Add(verifsim.Event{K: "par.inv", S: c.op.Kind, V: int64(i), If: c.op.If})
			switch c.op.Kind {
			case "sub":
				c.ch = w.Subscribe(c.op.If, Change(c.op.Mask))
			case "emit":
				var msgs []rtnetlink.Message
				for _, m := range c.op.Msgs {
					msgs = append(msgs, m.message())
				}
				select {
				case emitC <- msgs:
					<-ackC
				case <-watchDone:
					c.skipped = true
				}
			case "end":
				switch c.op.End {
				case "cancel":
					cancel()
				case "error":
					endC <- errors.New("netlink receive: no buffer space available")
				default:
					endC <- nil
				}
				<-watchDone
			}
			e := verifsim.Event{K: "par.ret", S: c.op.Kind, V: int64(i)}
			if c.skipped {
				e.Err = "skipped"
			}
			c.ret = lg.Add(e)
			c.p.done = true
			finished++
			sc.ticks++
		}()
		<-started
	}
	stuck := false
	for step, k := 0, 0; ; step++ {
		sc.settle()
		if finished == len(calls) {
			break
		}
		var parked []*participant
		for _, p := range sc.order {
			if p.parked {
				parked = append(parked, p)
			}
		}
		if len(parked) == 0 || step > 5000 {
			stuck = true
			break
		}
		pick := 0
		if k < len(op.Sched) {
			pick = op.Sched[k] % len(parked)
			if pick < 0 {
				pick = -pick
			}
			k++
		}
		p := parked[pick]
		lg.Add(verifsim.Event{K: "sched", S: p.name, Ref: len(parked), F: p.site})
		p.wake <- struct{}{}
	}
	sc.active = false
	if stuck {
		var who []string
		for _, c := range calls {
			if !c.p.done {
				who = append(who, c.p.name)
			}
		}
		res.Violate("C19.concurrent", "deadlock", "concurrent %v never returned and no goroutine can make progress (calls in the group: %s)", who, parDesc(op))
		return false
	}
	// the watcher may still be parked on its way out of notify or Watch
	for again := true; again; {
		again = false
		sc.settle()
		for _, p := range sc.order {
			if p.parked {
				p.wake <- struct{}{}
				again = true
			}
		}
	}

	// observation: everything every subscriber (old and new) can receive now
	for _, c := range calls {
		if c.op.Kind == "sub" {
			*subs = append(*subs, c.ch)
		}
	}
	obs := make([]subObs, len(*subs))
	for i, ch := range *subs {
	drain:
		for n := 0; n < 64; n++ {
			select {
			case v, ok := <-ch:
				if !ok {
					obs[i].closed = true
					break drain
				}
				obs[i].got = append(obs[i].got, v)
			default:
				break drain
			}
		}
		lg.Add(verifsim.Event{K: "par.obs", V: int64(i), S: fmt.Sprint(obs[i].got), Ref: b2i(obs[i].closed)})
	}

	// reference: some sequential order must explain the observation
	order := make([]int, 0, len(calls))
	used := make([]bool, len(calls))
	tried, why := 0, ""
	var search func() bool
	search = func() bool {
		if len(order) == len(calls) {
			tried++
			ok, msg := parExplains(calls, order, *model, *ended, len(*subs), obs)
			if !ok && why == "" {
				why = msg
			}
			return ok
		}
		for i, c := range calls {
			if used[i] {
				continue
			}
			// c may come next only if no unplaced call returned before c started
			okNext := true
			for j, d := range calls {
				if j != i && !used[j] && d.ret != 0 && d.ret < c.inv {
					okNext = false
				}
			}
			if !okNext {
				continue
			}
			used[i] = true
			order = append(order, i)
			if search() {
				return true
			}
			order = order[:len(order)-1]
			used[i] = false
		}
		return false
	}
	if !search() {
		res.Violate("C19.concurrent", "not-linearizable", "no sequential order of the concurrent calls {%s} explains what the subscribers hold afterwards (%d orders tried; e.g. %s)", parDesc(op), tried, why)
	}
	res.Probe("concurrent_group")
	// continue from the observed state
	for _, c := range calls {
		if c.op.Kind == "sub" {
			*model = append(*model, &modelSub{ifn: c.op.If, mask: Change(c.op.Mask)})
		}
		if c.op.Kind == "end" {
			*ended = true
		}
	}
	for i, m := range *model {
		m.q = nil
		if obs[i].closed {
			m.q = nil
		}
		m.afterEnd = *ended && !obs[i].closed
	}
	return true
}

func b2i(b bool) int {
	if b {
		return 1
	}
	return 0
}

func parDesc(op *WOp) string {
	var d []string
	for _, c := range op.Par {
		switch c.Kind {
		case "sub":
			d = append(d, fmt.Sprintf("Subscribe(%s,%s)", c.If, Change(c.Mask)))
		case "emit":
			var m []string
			for _, x := range c.Msgs {
				m = append(m, fmt.Sprintf("%s:%d", x.If, x.Oper))
			}
			d = append(d, "notify["+strings.Join(m, " ")+"]")
		case "end":
			d = append(d, "end("+c.End+")")
		}
	}
	return strings.Join(d, ", ")
}

// parExplains applies the calls in the given order to a copy of the model and
// compares the result with the observation.
func parExplains(calls []*parCall, order []int, model []*modelSub, ended bool, nsubs int, obs []subObs) (bool, string) {
	type ms struct {
		ifn    string
		mask   Change
		q      []Change
		on     bool // subscribed
		closed bool
		dead   bool // subscribed after the end: never notified, never closed
	}
	st := make([]ms, nsubs)
	for i, m := range model {
		st[i] = ms{ifn: m.ifn, mask: m.mask, q: append([]Change(nil), m.q...), on: true, dead: m.afterEnd}
	}
	for _, ci := range order {
		c := calls[ci]
		switch c.op.Kind {
		case "sub":
			st[c.sub] = ms{ifn: c.op.If, mask: Change(c.op.Mask), on: true, dead: ended}
		case "emit":
			if ended != c.skipped {
				return false, fmt.Sprintf("notify placed %s the end but it was %s", map[bool]string{true: "after", false: "before"}[ended], map[bool]string{true: "refused", false: "delivered"}[c.skipped])
			}
			if ended {
				continue
			}
			for _, m := range c.op.Msgs {
				ch, ok := changeOfOper(m.Oper)
				if m.NotLink || m.NoAttr || !ok {
					continue
				}
				for i := range st {
					s := &st[i]
					if s.on && !s.dead && s.ifn == m.If && s.mask&ch != 0 && len(s.q) < 8 {
						s.q = append(s.q, ch)
					}
				}
			}
		case "end":
			ended = true
			for i := range st {
				if st[i].on && !st[i].dead {
					st[i].closed = true
				}
			}
		}
	}
	for i := range st {
		if fmt.Sprint(st[i].q) != fmt.Sprint(obs[i].got) && !(len(st[i].q) == 0 && len(obs[i].got) == 0) {
			return false, fmt.Sprintf("subscriber %d (%s mask %s) would hold %v, holds %v", i, st[i].ifn, st[i].mask, st[i].q, obs[i].got)
		}
		if st[i].closed != obs[i].closed {
			return false, fmt.Sprintf("subscriber %d: channel closed=%t, expected %t", i, obs[i].closed, st[i].closed)
		}
	}
	return true, ""
}

// ---------------------------------------------------------------- generators

const nMasks = 127

func c19Enum(tier string) int { return nMasks * 7 * 2 }

func c19Gen(rng *verifsim.RNG, idx int, tier string) any {
	p := &WPlan{Prop: "C19", Offset: rng.Int63n(int64(time.Hour))}
	if rng.Bool(0.5) {
		p.Cancel = rng.U64()>>1 | 1
	}
	if idx < c19Enum(tier) {
		// Exhaustive single-event table: every non-empty mask x every link state x {matching, other} interface.
		p.Class = "single-event-table"
		mask := uint(idx%nMasks) + 1
		st := allChanges[(idx/nMasks)%7]
		ifn := []string{"eth0", "eth1"}[idx/(nMasks*7)]
		p.Ops = []WOp{
			{Kind: "sub", If: "eth0", Mask: mask},
			{Kind: "emit", Msgs: []WMsg{{If: ifn, Oper: int(operOf[st])}}},
			{Kind: "drain", Sub: 0, K: 2},
		}
		return p
	}
	if rng.Bool(0.45) {
		return c19Concurrent(rng, p)
	}
	if rng.Bool(0.25) {
		return c19SlowAndFast(rng, p)
	}
	p.Class = "random"
	ifs := []string{"eth0", "eth1", "wan0"}
	nsub := 0
	n := rng.Range(3, 40)
	undrained := rng.Bool(0.3) // leave subscribers undrained: up to 30 pending events
	for i := 0; i < n; i++ {
		switch rng.Pick(3, 8, 4, 1, 1) {
		case 0:
			m := uint(rng.Range(1, nMasks))
			if rng.Bool(0.3) {
				m = uint(LinkDown)
			}
			if rng.Bool(0.1) {
				m = uint(LinkAny)
			}
			p.Ops = append(p.Ops, WOp{Kind: "sub", If: ifs[rng.Intn(len(ifs))], Mask: m})
			nsub++
		case 1:
			var msgs []WMsg
			for j, k := 0, rng.Range(1, 6); j < k; j++ {
				m := WMsg{If: ifs[rng.Intn(len(ifs))], Oper: int(operOf[allChanges[rng.Intn(7)]])}
				switch rng.Intn(12) {
				case 0:
					m.Oper = 200 // unknown operstate
				case 1:
					m.NoAttr = true
				case 2:
					m.NotLink = true
				}
				msgs = append(msgs, m)
			}
			p.Ops = append(p.Ops, WOp{Kind: "emit", Msgs: msgs})
		case 2:
			if nsub > 0 && !undrained {
				p.Ops = append(p.Ops, WOp{Kind: "drain", Sub: rng.Intn(nsub), K: rng.Range(1, 10)})
			}
		case 3:
			p.Ops = append(p.Ops, WOp{Kind: "end", End: []string{"nil", "error", "cancel"}[rng.Intn(3)]})
		default:
			p.Ops = append(p.Ops, WOp{Kind: "watch2"})
		}
	}
	return p
}

// c19SlowAndFast: subscribers that never drain next to subscribers that drain
// after every batch, several of them under the very same interface and mask: a
// full buffer is that subscriber's loss alone.
func c19SlowAndFast(rng *verifsim.RNG, p *WPlan) *WPlan {
	p.Class = "slow-and-fast"
	ifs := []string{"eth0", "eth1"}
	masks := []uint{uint(LinkAny), uint(LinkDown), uint(LinkUp | LinkDown), uint(rng.Range(1, nMasks))}
	var fast []int
	nsub := rng.Range(2, 6)
	for i := 0; i < nsub; i++ {
		p.Ops = append(p.Ops, WOp{Kind: "sub", If: ifs[rng.Intn(2)], Mask: masks[rng.Intn(len(masks))]})
		if rng.Bool(0.5) {
			fast = append(fast, i)
		}
	}
	for i, n := 0, rng.Range(8, 30); i < n; i++ {
		var msgs []WMsg
		for j, k := 0, rng.Range(1, 3); j < k; j++ {
			msgs = append(msgs, WMsg{If: ifs[rng.Intn(2)], Oper: int(operOf[allChanges[rng.Intn(7)]])})
		}
		p.Ops = append(p.Ops, WOp{Kind: "emit", Msgs: msgs})
		for _, f := range fast {
			p.Ops = append(p.Ops, WOp{Kind: "drain", Sub: f, K: 9})
		}
		if i == n/2 && rng.Bool(0.5) {
			// a late subscriber under a mask somebody slow already holds
			p.Ops = append(p.Ops, WOp{Kind: "sub", If: ifs[rng.Intn(2)], Mask: masks[rng.Intn(len(masks))]})
			fast = append(fast, nsub)
			nsub++
		}
	}
	if rng.Bool(0.5) {
		p.Ops = append(p.Ops, WOp{Kind: "end", End: []string{"nil", "error", "cancel"}[rng.Intn(3)]})
	}
	return p
}

// c19Concurrent: a sequential prefix, then groups of calls made by concurrent
// callers (Subscribe while a notification is being delivered, while watching
// ends, while others subscribe) under a seeded schedule.
func c19Concurrent(rng *verifsim.RNG, p *WPlan) *WPlan {
	p.Class = "concurrent"
	ifs := []string{"eth0", "eth1", "wan0"}
	mask := func() uint {
		switch rng.Intn(4) {
		case 0:
			return uint(LinkAny)
		case 1:
			return uint(LinkDown)
		}
		return uint(rng.Range(1, nMasks))
	}
	batch := func() []WMsg {
		var msgs []WMsg
		for j, k := 0, rng.Range(1, 5); j < k; j++ {
			msgs = append(msgs, WMsg{If: ifs[rng.Intn(len(ifs))], Oper: int(operOf[allChanges[rng.Intn(7)]])})
		}
		return msgs
	}
	nsub := 0
	for i, n := 0, rng.Range(0, 4); i < n; i++ {
		p.Ops = append(p.Ops, WOp{Kind: "sub", If: ifs[rng.Intn(len(ifs))], Mask: mask()})
		nsub++
	}
	if rng.Bool(0.5) {
		// fill somebody's buffer first
		for i, n := 0, rng.Range(1, 10); i < n; i++ {
			p.Ops = append(p.Ops, WOp{Kind: "emit", Msgs: batch()})
		}
	}
	groups := rng.Range(1, 3)
	for g := 0; g < groups; g++ {
		var par []WOp
		withEnd := g == groups-1 && rng.Bool(0.35)
		emits := rng.Range(1, 2)
		if withEnd {
			emits = rng.Range(0, 1) // the watcher must never find two sources ready at once
			p.Class = "concurrent+end"
		}
		for i := 0; i < emits; i++ {
			par = append(par, WOp{Kind: "emit", Msgs: batch()})
		}
		for i, n := 0, rng.Range(1, 3); i < n; i++ {
			par = append(par, WOp{Kind: "sub", If: ifs[rng.Intn(len(ifs))], Mask: mask()})
			nsub++
		}
		if withEnd {
			par = append(par, WOp{Kind: "end", End: []string{"nil", "error", "cancel"}[rng.Intn(3)]})
		}
		// shuffle so that the start order is not tied to the kind
		for i := len(par) - 1; i > 0; i-- {
			j := rng.Intn(i + 1)
			par[i], par[j] = par[j], par[i]
		}
		var sch []int
		for i, n := 0, rng.Range(0, 60); i < n; i++ {
			sch = append(sch, rng.Intn(6))
		}
		p.Ops = append(p.Ops, WOp{Kind: "par", Par: par, Sched: sch})
		if !withEnd && rng.Bool(0.5) {
			p.Ops = append(p.Ops, WOp{Kind: "emit", Msgs: batch()})
			if nsub > 0 {
				p.Ops = append(p.Ops, WOp{Kind: "drain", Sub: rng.Intn(nsub), K: rng.Range(1, 10)})
			}
		}
	}
	return p
}

// ---------------------------------------------------------------- race run

// TestRace is the auxiliary check outside the simulation family: the same
// operation mix on real parallel goroutines under -race. A reported data race
// fails it; silence proves nothing.
func TestRace(t *testing.T) {
	if os.Getenv("VERIF_RACE") == "" {
		t.Skip("auxiliary race run: set VERIF_RACE=1")
	}
	deadline := time.Now().Add(3 * time.Second)
	for round := 0; time.Now().Before(deadline); round++ {
		w := NewWatcher()
		emitC := make(chan changeSet)
		w.watch = func(ctx context.Context, notify func(changeSet)) error {
			for {
				select {
				case cs := <-emitC:
					notify(cs)
				case <-ctx.Done():
					return nil
				}
			}
		}
		ctx, cancel := context.WithCancel(context.Background())
		var wg sync.WaitGroup
		wg.Add(1)
		go func() { defer wg.Done(); _ = w.Watch(ctx) }()
		for g := 0; g < 4; g++ {
			wg.Add(1)
			go func(g int) {
				defer wg.Done()
				for i := 0; i < 50; i++ {
					ch := w.Subscribe(fmt.Sprintf("eth%d", i%3), Change(1+(i+g)%127))
					select {
					case <-ch:
					default:
					}
					runtime.Gosched()
				}
			}(g)
		}
		wg.Add(1)
		go func() {
			defer wg.Done()
			for i := 0; i < 100; i++ {
				select {
				case emitC <- changeSet{fmt.Sprintf("eth%d", i%3): {allChanges[i%7], allChanges[(i+3)%7]}}:
				case <-ctx.Done():
					return
				}
			}
		}()
		time.Sleep(2 * time.Millisecond)
		cancel()
		wg.Wait()
	}
}

// ------------------------------------------------------------------ registry

func TestSim(t *testing.T) {
	verifsim.WorkerMain(t, map[string]verifsim.Handler{
		"C19": {
			Enum: c19Enum,
			Gen:  c19Gen,
			Exec: func(t *testing.T, plan []byte, res *verifsim.Result) {
				var p WPlan
				if err := json.Unmarshal(plan, &p); err != nil {
					fmt.Fprintf(os.Stderr, "sim: bad plan: %v\n", err)
					os.Exit(2)
				}
				execWPlan(t, &p, res, func(ev []verifsim.Event) {
					res.Events = len(ev)
					res.Hash = verifsim.Hash(ev)
					res.Sched = verifsim.SchedSig(ev)
					res.Class = p.Class
					n := len(ev)
					if n > 40 {
						n = 40
					}
					res.Head = ev[:n]
					if verifsim.Dump() {
						res.Log = ev
					}
				})
			},
		},
	})
}
