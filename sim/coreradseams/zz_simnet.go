package corerad

// Simulation build only (added to the package through `go build -overlay`, see
// /verif/verif): the TCP listener of the debug HTTP server as a seam. The runner
// compiles server.go from a copy in which net.Listen(..) is replaced by
// simNetListen(..), so that the real httpTask.Run and serve() (listen, retry
// every 3 s, serve until cancelled, close) run in the simulation. Requests are
// still handed to the handler directly; nothing is ever accepted.

import "net"

// SimRealHTTP reports that the substitution was applied to this build.
const SimRealHTTP = true

// SimListen, when non-nil, stands for net.Listen.
var SimListen func(network, addr string) (net.Listener, error)

func simNetListen(network, addr string) (net.Listener, error) {
	if f := SimListen; f != nil {
		return f(network, addr)
	}
	return net.Listen(network, addr)
}
