package corerad

// ConfigSpec / world swarm generation: configurations which docs/reference.toml
// documents as valid, and machine states for them.

import (
	"fmt"
	"time"

	"github.com/mdlayher/corerad/internal/verifsim"
	"golang.org/x/sys/unix"
)

// Address pool: every (class x stability x exclusion flag) combination that
// matters for C13/C14, several hosts in one /64, other prefix lengths.
var addrPool = []AddrW{
	{CIDR: "fd00:1::1/64"}, // ULA
	{CIDR: "fd00:1::2/64", Flags: unix.IFA_F_STABLE_PRIVACY}, // ULA stable, same /64
	{CIDR: "fd00:2::1/64", Flags: unix.IFA_F_MANAGETEMPADDR}, // ULA mngtmpaddr
	{CIDR: "fd00:3::211:22ff:fe33:4455/64"},                  // ULA EUI-64
	{CIDR: "2001:db8:a::1/64"},                               // GUA
	{CIDR: "2001:db8:a::2/64", Forever: true},                // GUA static, same /64
	{CIDR: "2001:db8:b::1/64", Flags: unix.IFA_F_TEMPORARY},  // GUA temporary
	{CIDR: "2001:db8:c::1/64", Flags: unix.IFA_F_TENTATIVE},  // GUA tentative
	{CIDR: "2001:db8:d::1/64", Flags: unix.IFA_F_DEPRECATED}, // GUA deprecated
	{CIDR: "2001:db8:e::1/48"},                               // other length
	{CIDR: "2001:db8:f::1/128", Forever: true},               // host address
	{CIDR: "fe80::211:22ff:fe33:4455/64"},                    // LLA EUI-64
	{CIDR: "fe80::5/64", Flags: unix.IFA_F_TENTATIVE},        // LLA tentative
	{CIDR: "2001:db8:1:2::99/64", Flags: unix.IFA_F_DEPRECATED | unix.IFA_F_STABLE_PRIVACY},
	{CIDR: "fd00:1::3/64", Flags: unix.IFA_F_TEMPORARY | unix.IFA_F_STABLE_PRIVACY},
	{CIDR: "2001:db8:0:1::1/64", Flags: unix.IFA_F_STABLE_PRIVACY},
	{CIDR: "::1/128", Forever: true},
	// networks whose order as text differs from their order as addresses
	{CIDR: "2001:db8:0:10::1/64"},
	{CIDR: "2001:db8::7/64", Forever: true}, // subnet zero
}

// Route pool for C15: nested prefixes sharing and not sharing a base address,
// host routes, the default route.
var routePool = []RouteW{
	{Prefix: "2001:db8:100::/48"},
	{Prefix: "2001:db8:100::/64"},   // same base as the /48
	{Prefix: "2001:db8:100:5::/64"}, // inside the /48, other base
	{Prefix: "2001:db8:200::/56"},
	{Prefix: "2001:db8:200:80::/64"}, // not inside the /56 (0x80 > 0x7f?) see note
	{Prefix: "2001:db8:200:1::/64"},  // inside the /56
	{Prefix: "fd00:aa::/32"},
	{Prefix: "fd00:aa:bb::/48"}, // inside the /32
	{Prefix: "2001:db8:300::1/128"},
	{Prefix: "::1/128"},
	{Prefix: "2001:db8:400::/64", Idx: 90},
	{Prefix: "2001:db8:400::/64"}, // duplicate across two loopbacks
	{Prefix: "::/0"},
}

// pickAddrs draws an address table: the interface's own link-local address
// plus a subset of the pool.
func pickAddrs(rng *verifsim.RNG, ll string, maxN int) []AddrW {
	out := []AddrW{{CIDR: ll + "/64", Flags: unix.IFA_F_PERMANENT, Forever: rng.Bool(0.5)}}
	n := rng.Range(0, maxN)
	for _, i := range rng.Perm(len(addrPool)) {
		if n == 0 {
			break
		}
		out = append(out, addrPool[i])
		n--
	}
	// listing order is the kernel's business
	p := rng.Perm(len(out))
	o2 := make([]AddrW, len(out))
	for i, j := range p {
		o2[i] = out[j]
	}
	return o2
}

func pickRoutes(rng *verifsim.RNG, maxN int, allowDefault bool) []RouteW {
	var out []RouteW
	n := rng.Range(0, maxN)
	for _, i := range rng.Perm(len(routePool)) {
		if n == 0 {
			break
		}
		if routePool[i].Prefix == "::/0" && !allowDefault {
			continue
		}
		r := routePool[i]
		if rng.Bool(0.15) {
			// not every route of a loopback interface is a plain unicast one
			r.Type = []int{unix.RTN_LOCAL, unix.RTN_ANYCAST, unix.RTN_MULTICAST, unix.RTN_UNREACHABLE, unix.RTN_BLACKHOLE}[rng.Intn(5)]
		}
		out = append(out, r)
		n--
	}
	return out
}

func secStr(n int) string { return fmt.Sprintf("%ds", n) }

// genDurationPair returns (valid, preferred) strings with preferred <= valid,
// both positive, whole seconds unless frac.
func genLifetimes(rng *verifsim.RNG, deprecated, frac bool) (*string, *string) {
	// tri-state each: absent / auto / explicit (or infinite when not deprecated)
	var v, p *string
	vv, pv := 24*time.Hour, 4*time.Hour
	switch rng.Intn(5) {
	case 0:
	case 1:
		v = sp("auto")
	case 2:
		if !deprecated {
			v = sp("infinite")
			vv = time.Duration(max32) * time.Second
			break
		}
		fallthrough
	default:
		vv = time.Duration(rng.Range(1, 200000)) * time.Second
		if rng.Bool(0.3) {
			vv = time.Duration(rng.Range(1, 120)) * time.Second
		}
		if frac && rng.Bool(0.5) {
			vv += time.Duration(rng.Range(1, 999)) * time.Millisecond
		}
		v = sp(vv.String())
	}
	switch rng.Intn(5) {
	case 0:
		if pv > vv {
			pv = vv
			p = sp(pv.String())
		}
	case 1:
		if pv > vv {
			pv = vv
			p = sp(pv.String())
		} else {
			p = sp("auto")
		}
	case 2:
		if !deprecated && vv == time.Duration(max32)*time.Second {
			p = sp("infinite")
			break
		}
		fallthrough
	default:
		hi := int64(vv / time.Second)
		if hi > 200000 {
			hi = 200000
		}
		if hi < 1 {
			hi = 1
		}
		pv = time.Duration(1+rng.Int63n(hi)) * time.Second
		if pv > vv {
			pv = vv
		}
		p = sp(pv.String())
	}
	return v, p
}

func triBool(rng *verifsim.RNG) *bool {
	switch rng.Intn(3) {
	case 0:
		return nil
	case 1:
		return bp(true)
	}
	return bp(false)
}

func triPref(rng *verifsim.RNG) *string {
	switch rng.Intn(5) {
	case 0:
		return nil
	case 1:
		return sp("low")
	case 2:
		return sp("medium")
	case 3:
		return sp("high")
	}
	return sp("")
}

func optLifetime(rng *verifsim.RNG, allowInf, allowEmpty, frac bool) *string {
	switch rng.Intn(6) {
	case 0:
		return nil
	case 1:
		return sp("auto")
	case 2:
		if allowEmpty {
			return sp("")
		}
	case 3:
		if allowInf {
			return sp("infinite")
		}
	}
	d := time.Duration(rng.Range(1, 100000)) * time.Second
	if frac && rng.Bool(0.4) {
		d += time.Duration(rng.Range(1, 999)) * time.Millisecond
	}
	return sp(d.String())
}

var domainPool = []string{"example.com", "lan.example.org", "a.b.c.d.example.net", "corp", "x-1.test", "home.arpa"}
var cpPool = []string{"https://portal.example.com/api", "http://router.lan/captive", "urn:ietf:params:capport:unrestricted", "https://example.org/a?b=c&d=%20e"}
var pref64Pool = []string{"64:ff9b::/96", "2001:db8:64::/96", "2001:db8:64::/64", "2001:db8:64::/56", "2001:db8:64::/48", "2001:db8::/40", "2001:db8::/32", "64:ff9b:1::/48"}

type cfgOpts struct {
	frac       bool // sub-unit durations allowed
	wildcards  bool
	deprecated bool
	intervals  bool // short intervals so that periodic RAs happen within the horizon
}

// genIfaceSpec fills an advertising interface with a random documented-valid
// configuration.
func genIfaceSpec(rng *verifsim.RNG, s *IfaceSpec, o cfgOpts) {
	maxI := 600 * time.Second
	if o.intervals || rng.Bool(0.6) {
		switch rng.Intn(4) {
		case 0:
			maxI = time.Duration(rng.Range(4, 12)) * time.Second
		case 1:
			maxI = time.Duration(rng.Range(4, 1800)) * time.Second
		case 2:
			maxI = time.Duration(rng.Range(4000, 30000)) * time.Millisecond
			if !o.frac {
				maxI = maxI.Truncate(time.Second)
			}
		default:
			maxI = []time.Duration{4 * time.Second, 1800 * time.Second, 9 * time.Second, 8 * time.Second, 600 * time.Second}[rng.Intn(5)]
		}
		s.MaxInterval = sp(maxI.String())
	}
	switch rng.Intn(3) {
	case 0:
	case 1:
		s.MinInterval = sp("auto")
	default:
		upper := int((time.Duration(0.75 * float64(maxI))).Truncate(time.Second) / time.Second)
		if upper >= 3 {
			s.MinInterval = sp(secStr(rng.Range(3, upper)))
		}
	}
	s.Managed, s.OtherConfig = triBool(rng), triBool(rng)
	timer := func() *string {
		switch rng.Intn(5) {
		case 0:
			return nil
		case 1:
			return sp("")
		case 2:
			return sp("0s")
		case 3:
			return sp([]string{"1h", "1ms", "3600s", "30s", "1h0m0s"}[rng.Intn(5)])
		}
		d := time.Duration(rng.Range(1, 3600000)) * time.Millisecond
		if o.frac && rng.Bool(0.3) {
			d += time.Duration(rng.Range(1, 999)) * time.Microsecond
			if d > time.Hour {
				d = time.Hour
			}
		}
		return sp(d.String())
	}
	s.ReachableTime, s.RetransmitTimer = timer(), timer()
	if rng.Bool(0.6) {
		s.HopLimit = ip([]int{0, 1, 64, 255, rng.Intn(256)}[rng.Intn(5)])
	}
	switch rng.Intn(6) {
	case 0:
	case 1:
		s.DefaultLifetime = sp("auto")
	case 2:
		s.DefaultLifetime = sp("")
	case 3:
		s.DefaultLifetime = sp("0s")
	case 4:
		s.DefaultLifetime = sp([]string{"9000s", "2h30m", maxI.String()}[rng.Intn(3)])
	default:
		lo := int((maxI + time.Second - 1) / time.Second)
		s.DefaultLifetime = sp(secStr(rng.Range(lo, 9000)))
	}
	s.Preference = triPref(rng)
	s.Verbose = rng.Bool(0.15)

	// prefixes: static ones from disjoint networks, at most one wildcard
	np := rng.Intn(5)
	usedWild := false
	for i := 0; i < np; i++ {
		var p PrefixSpec
		dep := o.deprecated && rng.Bool(0.3)
		if o.wildcards && !usedWild && rng.Bool(0.35) {
			usedWild = true
			p.Prefix = []*string{nil, sp(""), sp("::/64")}[rng.Intn(3)]
		} else {
			switch rng.Intn(3) {
			case 0:
				p.Prefix = sp(fmt.Sprintf("2001:db8:%x::/64", 0x1000+i))
			case 1:
				p.Prefix = sp(fmt.Sprintf("fd%02x:%x::/48", 0x10+i, i+1))
			default:
				p.Prefix = sp(fmt.Sprintf("2001:db8:%x:%x00::/56", 0x2000+i, rng.Intn(256)))
			}
		}
		p.OnLink, p.Autonomous = triBool(rng), triBool(rng)
		p.Deprecated = dep
		p.Valid, p.Preferred = genLifetimes(rng, dep, o.frac)
		s.Prefixes = append(s.Prefixes, p)
	}

	nr := rng.Intn(5)
	for i := 0; i < nr; i++ {
		var r RouteSpec
		dep := o.deprecated && rng.Bool(0.3)
		if o.wildcards && rng.Bool(0.3) {
			r.Prefix = []*string{nil, sp(""), sp("::/0")}[rng.Intn(3)]
		} else {
			switch rng.Intn(3) {
			case 0:
				r.Prefix = sp(fmt.Sprintf("2001:db8:%x::/48", 0x3000+i))
			case 1:
				r.Prefix = sp(fmt.Sprintf("fd%02x::/16", 0x40+i))
			default:
				r.Prefix = sp(fmt.Sprintf("2001:db8:ffff:%x::1/128", i))
			}
		}
		r.Preference = triPref(rng)
		r.Deprecated = dep
		r.Lifetime = optLifetime(rng, !dep, false, o.frac)
		s.Routes = append(s.Routes, r)
	}

	nd := rng.Intn(4)
	for i := 0; i < nd; i++ {
		var r RDNSSSpec
		r.Lifetime = optLifetime(rng, true, true, o.frac)
		k := rng.Intn(4)
		wild := o.wildcards && rng.Bool(0.4)
		if k == 0 && !wild && !o.wildcards {
			k = 1
		}
		var servers []string
		for j := 0; j < k; j++ {
			servers = append(servers, fmt.Sprintf("2001:db8:53:%x::%x", i, 9-j))
		}
		if wild && k > 0 {
			servers = append(servers, "::")
			pm := rng.Perm(len(servers))
			s2 := make([]string, len(servers))
			for a, b := range pm {
				s2[a] = servers[b]
			}
			servers = s2
		}
		if k == 0 && !o.wildcards {
			servers = []string{"2001:db8:53::1"}
		}
		r.Servers = servers
		s.RDNSS = append(s.RDNSS, r)
	}

	nl := rng.Intn(4)
	for i := 0; i < nl; i++ {
		var d DNSSLSpec
		d.Lifetime = optLifetime(rng, true, true, o.frac)
		k := rng.Range(1, 3)
		for _, j := range rng.Perm(len(domainPool))[:k] {
			d.DomainNames = append(d.DomainNames, domainPool[j])
		}
		s.DNSSL = append(s.DNSSL, d)
	}

	for i, n := 0, rng.Pick(6, 3, 1); i < n; i++ {
		var p Pref64Spec
		switch rng.Intn(4) {
		case 0:
		case 1:
			p.Prefix = sp("")
		default:
			p.Prefix = sp(pref64Pool[rng.Intn(len(pref64Pool))])
		}
		s.PREF64 = append(s.PREF64, p)
	}

	switch rng.Intn(4) {
	case 0:
	case 1:
		s.MTU = ip(0)
	case 2:
		s.MTU = ip([]int{1280, 1500, 9000, 65536, 1, 65535}[rng.Intn(6)])
	default:
		s.MTU = ip(rng.Range(1, 65536))
	}
	s.SourceLLA = triBool(rng)
	switch rng.Intn(4) {
	case 0:
	case 1:
		s.CaptivePortal = sp("")
	default:
		s.CaptivePortal = sp(cpPool[rng.Intn(len(cpPool))])
	}
}

// ifaceSpecFor finds the configuration stanza that covers an interface name.
func (c *ConfigSpec) ifaceSpecFor(name string) *IfaceSpec {
	for i := range c.Interfaces {
		for _, n := range c.Interfaces[i].names() {
			if n == name {
				return &c.Interfaces[i]
			}
		}
	}
	return nil
}
