package corerad

// C06 — multicast RAs are rate limited to one per MIN_DELAY_BETWEEN_RAS (3 s),
// and every trigger is still satisfied within 3 s.

import (
	"fmt"
	"net/netip"
	"time"

	"github.com/mdlayher/corerad/internal/verifsim"
	"github.com/mdlayher/ndp"
)

// Grid of arrival offsets (ns after start) around the 3 s boundary.
var c06Grid = []int64{
	1000, 100 * nsMs, 1 * nsSec, 2900 * nsMs, 3 * nsSec, 3100 * nsMs,
	5900 * nsMs, 6 * nsSec, 6100 * nsMs, 8900 * nsMs, 9 * nsSec, 9100 * nsMs,
}

// Interval settings which put periodic ticks before / around / after the
// boundary: (min,max).
var c06Intervals = [][2]string{{"3s", "4s"}, {"4s", "6s"}, {"", ""}}

func c06EnumLen(tier string) int {
	if tier == "thorough" {
		return 5
	}
	return 3
}

func c06Enum(tier string) int {
	return combosTotal(len(c06Grid), c06EnumLen(tier)) * len(c06Intervals)
}

func c06Gen(rng *verifsim.RNG, idx int, tier string) *Plan {
	p := oneAdvertiser(rng)
	ifs := &p.Nodes[0].Config.Interfaces[0]

	if n := c06Enum(tier); idx < n {
		// Deterministic corpus: every non-decreasing timeline of <= K solicitations
		// from :: on the grid, crossed with the interval settings.
		p.Class = "grid"
		iv := c06Intervals[idx%len(c06Intervals)]
		seq, _ := combos(idx/len(c06Intervals), len(c06Grid), c06EnumLen(tier))
		if iv[0] != "" {
			ifs.MinInterval, ifs.MaxInterval = sp(iv[0]), sp(iv[1])
		}
		for _, g := range seq {
			p.Actions = append(p.Actions, rsAction(c06Grid[g], "::"))
		}
		p.Horizon = 14 * nsSec
		return p
	}

	// Seeded population.
	switch rng.Pick(5, 3, 2) {
	case 0:
		p.Class = "burst"
	case 1:
		p.Class = "mixed-unicast"
	default:
		p.Class = "flap"
	}
	// Interval choice: short intervals make periodic ticks interact.
	switch rng.Intn(4) {
	case 0:
		ifs.MinInterval, ifs.MaxInterval = sp("3s"), sp("4s")
	case 1:
		mx := rng.Range(4, 12)
		mn := rng.Range(3, mx*3/4)
		ifs.MinInterval, ifs.MaxInterval = sp(fmt.Sprintf("%ds", mn)), sp(fmt.Sprintf("%ds", mx))
	case 2:
		ifs.MaxInterval = sp(fmt.Sprintf("%dms", rng.Range(4000, 9000)))
	}
	ifs.Verbose = rng.Bool(0.2)

	horizon := rng.Dur(8*time.Second, 90*time.Second)
	t := int64(0)
	bursts := rng.Range(1, 8)
	for b := 0; b < bursts; b++ {
		t += int64(rng.Dur(0, horizon/time.Duration(bursts)))
		k := rng.Range(1, 12)
		if rng.Bool(0.15) {
			k = rng.Range(12, 40)
		}
		bt := t
		for i := 0; i < k; i++ {
			src := "::"
			if p.Class == "mixed-unicast" && rng.Bool(0.5) {
				src = hostAddr(rng.Intn(4))
			}
			at := bt + jitter(rng)
			if rng.Bool(0.1) {
				// exactly on a whole 100 ms boundary
				at = bt / (100 * nsMs) * (100 * nsMs)
			}
			a := rsAction(at, src)
			if p.Class == "mixed-unicast" && rng.Bool(0.05) {
				// more solicitations from hosts than the request queue holds, all
				// in the socket at once, and one from :: at the very end
				a = rsAction(at, hostAddr(rng.Intn(4)))
				a.N = rng.Range(18, 40)
				tail := rsAction(at, "::")
				a.Then = &tail
				p.Actions = append(p.Actions, a)
				bt += int64(rng.Dur(0, 700*time.Millisecond))
				continue
			}
			if rng.Bool(0.15) {
				// a second solicitation sitting in the socket right behind this
				// one (the listener hands both over before the scheduler runs):
				// one of them from ::, the other from a host
				other := "::"
				if src == "::" {
					other = hostAddr(rng.Intn(4))
				}
				t := rsAction(at, other)
				a.Then = &t
			}
			p.Actions = append(p.Actions, a)
			bt += int64(rng.Dur(0, 700*time.Millisecond))
		}
	}
	if p.Class == "flap" {
		n := rng.Range(1, 3)
		for i := 0; i < n; i++ {
			p.Actions = append(p.Actions, Action{At: int64(rng.Dur(time.Second, horizon)) + jitter(rng), Kind: "link", If: "eth0", Oper: "down"})
		}
	}
	if rng.Bool(0.3) {
		// Transmit latency: spacing is judged on entry, so it must not matter.
		p.Faults = append(p.Faults, Fault{Seam: "write", Key: "mc", Count: -1, Lat: int64(rng.Dur(time.Millisecond, 400*time.Millisecond))})
		p.Class += "+latency"
	}
	if p.Class == "burst" && rng.Bool(0.3) {
		// a multicast transmission fails for a transient reason (no buffers,
		// network down): nobody got that RA, so whoever triggered it is still owed
		// one - by the connection that replaces this one, at once
		p.Faults = append(p.Faults, Fault{Seam: "write", Key: "mc", From: int64(rng.Dur(time.Second, horizon)), Count: 1,
			Err: []string{"ENOBUFS", "ENETDOWN", "EINVAL"}[rng.Intn(3)]})
		p.Class += "+failing-multicast"
	}
	if p.Class == "mixed-unicast" && rng.Bool(0.25) {
		// the answer to one host cannot be transmitted (the host is gone, no
		// buffers): whatever is done about it, no multicast RA comes closer than
		// 3 s to another one on that connection
		p.Faults = append(p.Faults, Fault{Seam: "write", Key: "uc", From: int64(rng.Dur(0, horizon)), Count: rng.Range(1, 2),
			Err: []string{"ENOBUFS", "ENETDOWN", "EINVAL"}[rng.Intn(3)]})
		p.Class += "+failing-unicast"
	}
	if p.Class == "mixed-unicast" && rng.Bool(0.4) {
		// slow unicast transmissions: what one host's RA is waiting for must not
		// hold up the multicast RAs (they are separate transmissions)
		p.Faults = append(p.Faults, Fault{Seam: "write", Key: "uc", Count: -1, Lat: int64(rng.Dur(300*time.Millisecond, 2900*time.Millisecond))})
		p.Class += "+slow-unicast"
	}
	p.Horizon = int64(horizon)
	if rng.Bool(0.25) {
		secondInterface(rng, p)
	}
	return p
}

// finalRAs returns the writes that are the terminating zero-lifetime RA of a
// generation: multicast, entered after the stop signal, router lifetime 0.
func stopInstant(h *history, node int) (int64, int, string) {
	for i := range h.ev {
		e := &h.ev[i]
		if e.K == "act.signal" && e.Node == node && e.Err == "" {
			return e.T, e.Seq, e.S
		}
	}
	return 0, 0, ""
}

func c06Oracle(info *runInfo, res *verifsim.Result) {
	h := analyse(info.ev)
	if info.rejected[0] != "" {
		res.Skipped = "config_rejected"
		return
	}
	_, stopSeq, _ := stopInstant(h, 0)
	const gap = 3 * nsSec
	anyMC := 0
	for _, g := range h.gens {
		var prev *write
		for _, w := range g.writes {
			if !w.mc() || w.marshalErr != "" || w.err != "" {
				continue
			}
			if stopSeq != 0 && w.seq > stopSeq && w.ra != nil && w.ra.RouterLifetime == 0 {
				continue // terminating RA: exempt
			}
			if g.endSeq != 0 && w.seq > g.endSeq {
				continue // straggler of a torn-down generation: C10's business
			}
			if prev != nil {
				anyMC++
				if d := w.t - prev.t; d < gap {
					res.Violate("C06.spacing", "spacing",
						"%s gen %d: multicast RAs entered at %s and %s are %s apart (< 3s)", g.ifn, g.gen, ms(prev.t), ms(w.t), time.Duration(d))
				}
			}
			prev = w
		}
		// Every solicitation from :: must be served by a multicast RA within 3 s.
		unicastOnly := false
		if s := info.plan.Nodes[0].Config.ifaceSpecFor(g.ifn); s != nil {
			unicastOnly = s.UnicastOnly
		}
		for _, r := range g.rxs {
			if unicastOnly || r.hop != 255 || !r.src.IsUnspecified() {
				continue
			}
			if _, ok := r.msg.(*ndp.RouterSolicitation); !ok {
				continue
			}
			deadline := r.t + gap
			if g.endSeq != 0 && g.tEnd <= deadline {
				continue
			}
			if st, _, _ := stopInstant(h, 0); st != 0 && st <= deadline {
				continue
			}
			if h.endT != 0 && h.endT <= deadline {
				continue
			}
			served := false
			for _, w := range g.writes {
				if w.mc() && w.marshalErr == "" && w.err == "" && w.seq > r.seq && w.t <= deadline {
					served = true
					break
				}
			}
			res.Probe("rs_from_unspecified")
			if !served {
				res.Violate("C06.served", "served",
					"%s gen %d: solicitation from :: received at %s saw no multicast RA by %s", g.ifn, g.gen, ms(r.t), ms(deadline))
			}
		}
	}
	res.Nontrivial = anyMC >= 2
	if len(h.gens) > 1 {
		res.Probe("reinitialised")
	}
	_ = netip.Addr{}
}

func init() {
	register("C06", c06Enum, c06Gen, c06Oracle)
}
