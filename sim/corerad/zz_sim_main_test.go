package corerad

import (
	"encoding/json"
	"fmt"
	"os"
	"testing"

	"github.com/mdlayher/corerad/internal/verifsim"
)

// handlers maps property ids to their generator and oracle in this package.
var handlers = map[string]verifsim.Handler{}

// register adds a daemon-altitude property: plans are Plan values, executed by
// execPlan and judged by oracle.
func register(prop string, enum func(tier string) int, gen func(rng *verifsim.RNG, idx int, tier string) *Plan, oracle func(info *runInfo, res *verifsim.Result)) {
	handlers[prop] = verifsim.Handler{
		Enum: enum,
		Gen: func(rng *verifsim.RNG, idx int, tier string) any {
			p := gen(rng, idx, tier)
			p.Prop = prop
			// Half of the plans also perturb the order in which goroutines that
			// are runnable in the same instant proceed (see execPlan).
			if rng.Bool(0.5) {
				p.Sched = rng.U64() | 1
			}
			return p
		},
		Exec: func(t *testing.T, plan []byte, res *verifsim.Result) {
			var p Plan
			if err := json.Unmarshal(plan, &p); err != nil {
				fmt.Fprintf(os.Stderr, "sim: bad plan: %v\n", err)
				os.Exit(2)
			}
			execPlan(t, &p, res, func(info *runInfo) { oracle(info, res) })
		},
	}
}

// TestSim is the simulator worker entry point; it does nothing unless the
// -sim.* flags are given (see /verif/verif).
func TestSim(t *testing.T) {
	verifsim.WorkerMain(t, handlers)
}
