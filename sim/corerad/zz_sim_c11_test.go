package corerad

// C11 (part B) — in the running daemon every connection is cleaned up exactly
// once, before the next one is opened or the task returns, and the autoconf
// sysctl of an advertising interface is off only while a connection is held.
// (Part A, every dial/task outcome sequence x every sysctl failure against
// Dialer.Dial alone, is decided in package system.) The real Dialer.dial runs
// here against the simulated kernel (sim/systemseams).

import (
	"time"

	"github.com/mdlayher/corerad/internal/system"
	"github.com/mdlayher/corerad/internal/verifsim"
)

func c11Gen(rng *verifsim.RNG, idx int, tier string) *Plan {
	p := c10Gen(rng, idx, tier)
	p.Class = "daemon:" + p.Class
	n := &p.Nodes[0]
	n.Ifaces[0].Auto = rng.Bool(0.7)
	horizon := p.Horizon
	if horizon == 0 {
		horizon = 20 * nsSec
	}
	// more re-initialisation: flaps, the interface going away and coming back,
	// dial attempts that fail for a while
	for i, k := 0, rng.Range(0, 3); i < k; i++ {
		at := int64(rng.Dur(time.Second, time.Duration(horizon))) + jitter(rng)
		switch rng.Intn(3) {
		case 0:
			p.Actions = append(p.Actions, Action{At: at, Kind: "link", If: "eth0", Oper: "down"})
		case 1:
			p.Actions = append(p.Actions, Action{At: at, Kind: "ifdown", If: "eth0"}, Action{At: at + 10, Kind: "link", If: "eth0", Oper: "down"},
				Action{At: at + int64(rng.Dur(100*time.Millisecond, 3*time.Second)), Kind: "ifup", If: "eth0"})
		default:
			p.Actions = append(p.Actions, Action{At: at, Kind: "link", If: "eth0", Oper: "down"})
			p.Faults = append(p.Faults, Fault{Seam: "dial", If: "eth0", From: at, Count: rng.Range(1, 4), Err: []string{"linknotready", "ENETDOWN", "ENOBUFS"}[rng.Intn(3)]})
		}
	}
	// sysctl trouble inside a dial attempt or a cleanup
	if rng.Bool(0.3) {
		seam := []string{"auto.get", "auto.set"}[rng.Intn(2)]
		p.Faults = append(p.Faults, Fault{Seam: seam, If: "eth0", N: rng.Range(1, 6), Err: []string{"fs.EPERM", "fs.ENOENT", "fs.EIO"}[rng.Intn(3)]})
		p.Class += "+sysctl-fault"
	}
	// the socket is there but one of its set-up calls fails (or creating it does)
	if rng.Bool(0.25) {
		step := []string{"listen", "filter", "ctrl", "join"}[rng.Intn(4)]
		p.Faults = append(p.Faults, Fault{Seam: "sock." + step, If: "eth0", N: rng.Range(1, 4), Count: rng.Range(1, 2), Err: []string{"EPERM", "ENOBUFS", "EINVAL", "opaque"}[rng.Intn(4)]})
		p.Class += "+socket-setup-fault"
	}
	// somebody else changes the sysctl while the daemon holds a connection
	if rng.Bool(0.15) {
		p.Actions = append(p.Actions, Action{At: int64(rng.Dur(time.Second, time.Duration(horizon))), Kind: "autoconf", If: "eth0", On: rng.Bool(0.5)})
		p.Class += "+external-change"
	}
	return p
}

func c11Oracle(info *runInfo, res *verifsim.Result) {
	if info.rejected[0] != "" {
		res.Skipped = "config_rejected"
		return
	}
	if !system.SimRealDial {
		res.Skipped = "dial_stubbed"
		return
	}
	spec := &info.plan.Nodes[0].Config.Interfaces[0]
	ifn := spec.Name
	iw := &info.plan.Nodes[0].Ifaces[0]

	// connections
	open := 0            // generation currently open (0 = none)
	closes := map[int]int{}
	opened := 0
	// sysctl model: what the property says the value must be
	exp := iw.Auto
	held := false // a connection that disabled autoconf is held
	var before bool
	external, sysctlFault := false, false
	taskG := map[int]bool{}
	for i := range info.ev {
		e := &info.ev[i]
		if e.K == "dial.enter" && e.If == ifn {
			taskG[e.G] = true
		}
	}
	for i := range info.ev {
		e := &info.ev[i]
		if e.If != ifn && e.K != "task.exit" {
			continue
		}
		switch e.K {
		case "dial.enter":
			if open != 0 {
				res.Violate("C11.once", "overlap", "%s: a new connection is being opened at %s while connection %d has not been cleaned up", ifn, ms(e.T), open)
			}
		case "sock.open":
			open = e.Gen
			opened++
		case "sock.close":
			closes[e.Gen]++
			if closes[e.Gen] > 1 {
				res.Violate("C11.once", "twice", "%s: connection %d was closed %d times", ifn, e.Gen, closes[e.Gen])
			}
			if open == e.Gen {
				open = 0
			}
		case "task.exit":
			if taskIface(e.S) == ifn && open != 0 {
				res.Violate("C11.once", "never", "%s: the task returned at %s with connection %d still open", ifn, ms(e.T), open)
			}
		case "act.autoconf":
			external = true
		case "auto.get.exit":
			if e.Err != "" && taskG[e.G] {
				sysctlFault = true
			}
		case "auto.set":
			if !taskG[e.G] {
				continue
			}
			if spec.Monitor && !spec.Advertise {
				res.Violate("C11.window", "monitor-touches", "%s: a monitoring interface wrote the autoconf sysctl at %s", ifn, ms(e.T))
			}
			if e.Err != "" {
				// a refused write (a tolerated permission error lets the
				// connection go on and the cleanup try again)
				sysctlFault = true
				if !held {
					if e.Err == "fs.EPERM" {
						before, held = exp, true
					}
				} else {
					held = false
				}
				continue
			}
			if !held {
				// disabling for a new connection
				if e.V != 0 {
					res.Violate("C11.window", "enable-on-dial", "%s: dialing wrote autoconf=%d at %s", ifn, e.V, ms(e.T))
				}
				before, held, exp = exp, true, false
			} else {
				// restoring at cleanup
				if (e.V == 1) != before && !external && !sysctlFault {
					res.Violate("C11.wrongvalue", "wrongvalue", "%s: autoconf was %t before the connection was opened but cleanup at %s wrote %t", ifn, before, ms(e.T), e.V == 1)
				}
				held, exp = false, e.V == 1
			}
		}
	}
	for g, n := range closes {
		_ = g
		_ = n
	}
	if spec.Advertise && !external && !sysctlFault {
		if held {
			res.Violate("C11.restored", "no-restore", "%s: the daemon ended with autoconf still disabled for a connection it no longer holds", ifn)
		}
		final := false
		for i := range info.ev {
			if e := &info.ev[i]; e.K == "act.final" {
				final = true
			}
		}
		_ = final
		if exp != iw.Auto {
			res.Violate("C11.restored", "final", "%s: autoconf was %t before the daemon started and is %t after it ended", ifn, iw.Auto, exp)
		}
	}
	if external {
		res.Probe("sysctl_changed_by_somebody_else")
	}
	if sysctlFault {
		res.Probe("sysctl_fault_in_dial_or_cleanup")
	}
	if opened > 1 {
		res.Probe("reinitialised")
	}
	res.Nontrivial = opened >= 1
}

func init() {
	register("C11", nil, c11Gen, c11Oracle)
}
