package corerad

// C08 — on termination exactly one zero-lifetime RA is sent, last; on reload
// none; the advertiser stops promptly, reports success and transmits nothing
// after it has returned.

import (
	"fmt"
	"strings"
	"time"

	"github.com/mdlayher/corerad/internal/verifsim"
)

func c08Gen(rng *verifsim.RNG, idx int, tier string) *Plan {
	p := oneAdvertiser(rng)
	s := &p.Nodes[0].Config.Interfaces[0]
	s.MaxInterval = sp([]string{"4s", "6s", "600s"}[rng.Intn(3)])
	s.UnicastOnly = rng.Bool(0.1)
	s.Verbose = rng.Bool(0.2)
	if rng.Bool(0.3) {
		s.Prefixes = []PrefixSpec{{Prefix: sp("2001:db8:1::/64")}}
	}
	stop := int64(rng.Dur(500*time.Millisecond, 20*time.Second)) + jitter(rng)
	sig := []string{"SIGTERM", "SIGINT", "SIGHUP"}[rng.Pick(4, 3, 3)]
	p.Class = "idle"

	// Work pending at the stop instant: solicitations shortly before it.
	if rng.Bool(0.8) {
		p.Class = "pending"
		k := rng.Range(1, 6)
		for i := 0; i < k; i++ {
			before := int64(rng.Dur(0, 600*time.Millisecond))
			if rng.Bool(0.3) {
				before = int64(rng.Dur(0, 3500*time.Millisecond))
			}
			src := hostAddr(rng.Intn(4))
			if rng.Bool(0.35) {
				src = "::"
			}
			at := stop - before
			if at < 1000 {
				at = 1000
			}
			p.Actions = append(p.Actions, rsAction(at, src))
		}
		if rng.Bool(0.3) {
			// a solicitation arriving concurrently with the stop
			p.Actions = append(p.Actions, rsAction(stop, hostAddr(0)), rsAction(stop+1, "::"))
		}
	}
	// Transmissions in flight: a send worker parked in its forwarding read or
	// inside WriteTo across the stop.
	if rng.Bool(0.6) {
		p.Class += "+inflight"
		seam := []string{"fwd", "write", "write"}[rng.Intn(3)]
		f := Fault{Seam: seam, From: stop - int64(rng.Dur(0, 3*time.Second))}
		if f.From < 1 {
			f.From = 1
		}
		if seam == "write" {
			f.Key = []string{"uc", "mc", ""}[rng.Intn(3)]
		}
		switch rng.Intn(3) {
		case 0:
			f.Lat = int64(rng.Dur(time.Millisecond, 3*time.Second))
		default:
			f.Hold = "h1"
			switch rng.Intn(3) {
			case 0: // released shortly after the stop
				p.Actions = append(p.Actions, Action{At: stop + int64(rng.Dur(time.Millisecond, 1500*time.Millisecond)), Kind: "release", Hold: "h1"})
			case 1: // released before the stop after all
				p.Actions = append(p.Actions, Action{At: stop - int64(rng.Dur(0, 200*time.Millisecond)), Kind: "release", Hold: "h1"})
			default: // only released at the end of the run
			}
		}
		if rng.Bool(0.3) {
			f.Count = 3
		}
		if rng.Bool(0.3) {
			// the parked call then fails: a transmission in flight at the stop that
			// ends in an error (or a failing sysctl read)
			p.Class += "+fails"
			if seam == "write" {
				f.Err = []string{"ENETDOWN", "ENOBUFS", "EPERM"}[rng.Intn(3)]
			} else {
				f.Err = "fs.EIO"
			}
		}
		p.Faults = append(p.Faults, f)
		// make sure something runs into it
		p.Actions = append(p.Actions, rsAction(f.From+1000, hostAddr(1)))
	}
	if stop > 2*nsSec {
		maybeReinit(rng, p, "eth0", stop/4, stop-200*nsMs, 0.2)
	}
	if rng.Bool(0.2) {
		// the signal task is held up in its supervisor notification (a slow
		// notify socket): whatever it does in which order, the advertisers must
		// learn terminate-vs-reload before they can act on the cancellation
		p.Class += "+slow-notify"
		p.Faults = append(p.Faults, Fault{Seam: "notify", From: stop, Hold: "hn"})
		if rng.Bool(0.7) {
			p.Actions = append(p.Actions, Action{At: stop + int64(rng.Dur(time.Millisecond, 1500*time.Millisecond)), Kind: "release", Hold: "hn"})
		}
	}
	if rng.Bool(0.15) {
		// forwarding is switched off some time before the stop: hosts may still
		// hold the default route from an earlier RA; the goodbye is owed all the same
		p.Class += "+fwd-off-at-stop"
		at := stop - int64(rng.Dur(time.Millisecond, 2500*time.Millisecond))
		if at < 1000 {
			at = 1000
		}
		p.Actions = append(p.Actions, Action{At: at, Kind: "fwd", If: "eth0", On: false})
	}
	if rng.Bool(0.12) {
		// what a normal RA says changes shortly before the stop (an address comes
		// or goes under a ::/64 wildcard): the goodbye is the *current* normal RA
		// with router lifetime 0, not the one hosts saw last
		p.Class += "+tables-change-before-stop"
		iw := &p.Nodes[0].Ifaces[0]
		s.Prefixes = []PrefixSpec{{Prefix: sp("::/64")}}
		if rng.Bool(0.3) {
			s.RDNSS = []RDNSSSpec{{Servers: []string{"::"}}}
		}
		iw.Addrs = append(iw.Addrs, AddrW{CIDR: "2001:db8:a::1/64", Forever: true})
		at := stop - int64(rng.Dur(time.Millisecond, 2500*time.Millisecond))
		if at < 1000 {
			at = 1000
		}
		p.Actions = append(p.Actions, Action{At: at, Kind: "addrs", If: "eth0", Addrs: append(append([]AddrW(nil), iw.Addrs...), AddrW{CIDR: "2001:db8:b::1/64", Forever: true})})
	}
	if stop > 3*nsSec && rng.Bool(0.12) {
		// the stop arrives while the interface is being re-dialled after a link
		// event, and the (slow) dial attempt then succeeds: hosts still hold the
		// default route they learnt from the previous connection
		p.Class += "+stop-during-redial"
		d := int64(rng.Dur(50*time.Millisecond, 900*time.Millisecond))
		p.Actions = append(p.Actions, Action{At: stop - d, Kind: "link", If: "eth0", Oper: "down"})
		p.Faults = append(p.Faults, Fault{Seam: "dial", If: "eth0", From: stop - d, Count: 1, Lat: d + int64(rng.Dur(time.Millisecond, 700*time.Millisecond))})
	}
	if rng.Bool(0.15) {
		// a solicitation that is out of the socket queue before the stop but whose
		// receive only returns after it: the listener hands it over to a
		// scheduler that may already be gone
		p.Class += "+rs-across-stop"
		d := int64(rng.Dur(time.Millisecond, 400*time.Millisecond))
		at := stop - d
		if at < 2000 {
			at = 2000
		}
		p.Faults = append(p.Faults, Fault{Seam: "read.post", From: at - 1000, Count: 1, Lat: d + int64(rng.Dur(time.Millisecond, 600*time.Millisecond))})
		p.Actions = append(p.Actions, rsAction(at, []string{hostAddr(2), "::"}[rng.Intn(2)]))
	}
	if rng.Bool(0.1) {
		// a burst of solicitations is sitting in the socket in the very instant of
		// the stop: more of them than the advertiser's request queue holds, so
		// the listener is waiting for room in it when everybody is told to go
		p.Class += "+burst-then-stop"
		biasQueueFull(rng, p)
		a := rsAction(stop, []string{hostAddr(3), "::"}[rng.Intn(2)])
		a.N = rng.Range(17, 40)
		if rng.Bool(0.5) {
			a.Then = &Action{Kind: "signal", Sig: sig}
			p.Actions = append(p.Actions, a)
		} else {
			// (the order in which the two become runnable is the other way round)
			p.Actions = append(p.Actions, Action{At: stop, Kind: "signal", Sig: sig, Then: &a})
		}
	} else {
		p.Actions = append(p.Actions, Action{At: stop, Kind: "signal", Sig: sig})
	}
	if rng.Bool(0.1) {
		// a second signal while shutting down
		p.Actions = append(p.Actions, Action{At: stop + int64(rng.Dur(0, time.Second)), Kind: "signal", Sig: []string{"SIGTERM", "SIGHUP"}[rng.Intn(2)]})
	}
	p.Horizon = stop + 4*nsSec
	if rng.Bool(0.25) {
		secondInterface(rng, p)
	}
	return p
}

// c08ZeroByForwarding: did any RA after seq go out with router lifetime 0 because
// its build found forwarding off (so that a lifetime of 0 does not single out
// the goodbye)?
func c08ZeroByForwarding(ws []*write, seq int) bool {
	for _, w := range ws {
		if w.seq > seq && w.build != nil && !w.build.fwd && w.build.fwdErr == "" {
			return true
		}
	}
	return false
}

// lastRelease returns the latest instant at which something the plan had
// parked was let go (holds, latencies), looking only at parks that began before `until`.
func lastRelease(ev []verifsim.Event) int64 {
	var r int64
	released := map[string]int64{}
	used := map[string]bool{}
	var endrun int64
	enter := map[int]*verifsim.Event{}
	for i := range ev {
		e := &ev[i]
		switch {
		case e.K == "act.release":
			released[e.S] = e.T
		case e.K == "act.endrun":
			endrun = e.T
		}
		if e.F != "" {
			enter[e.Seq] = e
			for _, p := range strings.Split(e.F, ",") {
				if strings.HasPrefix(p, "hold=") {
					used[strings.TrimPrefix(p, "hold=")] = true
				}
			}
		}
		if e.Ref != 0 {
			if en := enter[e.Ref]; en != nil && strings.Contains(en.F, "lat") && e.T > r {
				r = e.T
			}
		}
	}
	for h := range used {
		t, ok := released[h]
		if !ok {
			t = endrun
		}
		if t > r {
			r = t
		}
	}
	return r
}

func c08Oracle(info *runInfo, res *verifsim.Result) {
	if info.rejected[0] != "" {
		res.Skipped = "config_rejected"
		return
	}
	h := analyse(info.ev)
	stopT, stopSeq, sig := stopInstant(h, 0)
	if stopSeq == 0 {
		return
	}
	// If the signal task was parked on its way to cancelling everybody (slow
	// supervisor socket), the advertisers are only asked to stop when it is let go.
	// (Whether the notification comes before or after the cancellation is the
	// daemon's business: if the tasks are seen to have been told to stop while
	// the notification is still parked - the link watcher or the debug server
	// going away, which only the server's own cancellation brings about - they
	// were asked at the signal.)
	parked := ""
	for i := range h.ev {
		e := &h.ev[i]
		if parked != "" && e.Seq > stopSeq && ((e.K == "watch.exit" && e.Err == "") || e.K == "http.close") {
			// (unless it was a failing task that cancelled everybody meanwhile)
			failed := false
			for j := range h.ev {
				x := &h.ev[j]
				if x.K == "task.exit" && x.Err != "" && x.Seq < e.Seq {
					failed = true
				}
			}
			if !failed {
				res.Probe("cancelled_before_the_parked_notification_returned")
				break
			}
		}
		if e.Seq > stopSeq && e.K == "notify" && strings.Contains(e.F, "hold=") && strings.Contains(e.S, "STOPPING") {
			parked = strings.TrimPrefix(e.F[strings.Index(e.F, "hold="):], "hold=")
			if j := strings.IndexByte(parked, ','); j >= 0 {
				parked = parked[:j]
			}
		}
		if parked != "" && e.Seq > stopSeq && ((e.K == "act.release" && e.S == parked) || e.K == "act.endrun") {
			stopT, stopSeq = e.T, e.Seq
			res.Probe("signal_task_parked_in_notify")
			break
		}
	}
	term := sig != "SIGHUP"
	// If some task had already failed before the signal, the server was being
	// torn down because of that failure (every task cancelled, no signal recorded):
	// not an advertiser being asked to stop by a signal.
	for i := range h.ev {
		e := &h.ev[i]
		if e.K == "task.exit" && e.Err != "" && (e.Seq < stopSeq || e.T <= stopT) {
			res.Probe("server_failing_before_stop")
			return
		}
	}
	for _, is := range info.plan.Nodes[0].Config.Interfaces {
		if !is.Advertise {
			continue
		}
		for _, ifn := range is.names() {
			c08Iface(info, res, h, ifn, is.UnicastOnly, stopT, stopSeq, term)
		}
	}
}

func c08Iface(info *runInfo, res *verifsim.Result, h *history, ifn string, unicastOnly bool, stopT int64, stopSeq int, term bool) {
	// The generation that was live at the stop instant.
	var live *generation
	for _, g := range h.gens {
		if g.ifn == ifn && g.dialSeq < stopSeq && (g.endSeq == 0 || g.endSeq > stopSeq) {
			live = g
		}
	}
	var exit *verifsim.Event
	for i := range h.ev {
		e := &h.ev[i]
		if e.K == "task.exit" && taskIface(e.S) == ifn {
			exit = e
			break
		}
	}
	// A connection that only came up after the stop (the stop arrived while the
	// interface was being re-dialled, and the attempt then succeeded): hosts may
	// still hold the default route learnt from the previous connection, and the
	// terminating daemon has a socket to say goodbye on.
	if term && !unicastOnly {
		for _, g := range h.gens {
			if g.ifn != ifn || g.dialSeq < stopSeq || g.gen < 2 {
				continue
			}
			failed := false
			for i := range h.ev {
				e := &h.ev[i]
				if e.Seq > stopSeq && e.If == ifn && e.Err != "" && e.Err != "deadline" && (e.K == "fwd.exit" || e.K == "write.exit" || e.K == "auto.set" || e.K == "auto.get.exit") {
					failed = true
				}
			}
			if failed {
				continue
			}
			n := 0
			var lastW *write
			amb := c08ZeroByForwarding(g.writes, 0)
			for i, w := range g.writes {
				if w.marshalErr != "" || w.ra == nil {
					continue
				}
				if w.mc() && w.ra.RouterLifetime == 0 && !(amb && (i == 0 || !isTaskGoroutine(info, w.g, ifn))) {
					n++
				}
				lastW = w
			}
			res.Probe("connection_established_after_stop")
			if n != 1 || lastW == nil || lastW.ra.RouterLifetime != 0 {
				res.Violate("C08.final", "after-redial", "%s: terminating (stop at %s); the connection re-established at %s sent %d zero-lifetime multicast RAs (want exactly 1, last)", ifn, ms(stopT), ms(g.t0), n)
			}
		}
	}
	if live == nil {
		return
	}
	// The statement speaks about an advertiser that is advertising when asked to
	// stop: the generation must have finished initialising (its listener reads).
	initialised := false
	for i := range h.ev {
		e := &h.ev[i]
		if e.K == "read.enter" && e.If == ifn && e.Gen == live.gen && e.Seq < stopSeq {
			initialised = true
			break
		}
	}
	if !initialised {
		res.Probe("stop_during_initialisation")
		return
	}
	// A failure that surfaced before the stop already doomed this generation (its
	// teardown may merely still be waiting for a transmission in flight): that is
	// C10's business, not an advertiser being asked to stop.
	// ... unless the daemon still holds that connection at a later instant than the
	// stop (the teardown waits for a transmission in flight): by then it knows it
	// has been asked to stop, there will be no next connection, and the goodbye
	// goes out on this one.
	heldLater := false
	for i := range h.ev {
		e := &h.ev[i]
		if e.K == "sock.close" && e.If == ifn && e.Gen == live.gen && e.T > stopT {
			heldLater = true
		}
	}
	for i := range h.ev {
		e := &h.ev[i]
		// (a failure in the very instant of the stop races it: either may win)
		if (e.Seq < stopSeq || e.T <= stopT) && e.If == ifn && e.Err != "" && e.Err != "deadline" && (e.K == "write.exit" || e.K == "fwd.exit" || e.K == "read.exit") && (e.Gen == live.gen || e.K == "fwd.exit") {
			res.Probe("failed_before_stop")
			if !heldLater {
				return
			}
			res.Probe("doomed_connection_still_held_after_stop")
		}
		// likewise a link-down event: the generation is being re-established when
		// the stop arrives
		if e.K == "act.link" && isDown(e.S) && e.Err == "" && e.If == ifn && e.Seq > live.dialSeq && e.Seq < stopSeq {
			res.Probe("link_down_before_stop")
			if !heldLater {
				return
			}
			res.Probe("doomed_connection_still_held_after_stop")
		}
	}
	res.Nontrivial = true

	// pending work at the stop instant?
	for _, w := range live.writes {
		if w.seq < stopSeq && (w.exitSeq == 0 || w.exitSeq > stopSeq) {
			res.Probe("stop_with_write_in_flight")
		}
	}
	for _, b := range h.builds {
		if b.ifn == ifn && b.seq < stopSeq && b.held > 0 && b.t2 > stopT {
			res.Probe("stop_with_worker_in_forwarding_read")
		}
	}

	// The goodbye is told from other RAs by its router lifetime of 0 - unless
	// forwarding is off, when every RA carries 0: then it is the multicast RA the
	// task's own goroutine sends after the stop which is not the first
	// transmission of its connection (that one is the initial RA).
	var finals []*write
	ambiguous := c08ZeroByForwarding(live.writes, stopSeq)
	for i, w := range live.writes {
		if w.seq > stopSeq && w.mc() && w.ra != nil && w.ra.RouterLifetime == 0 && w.marshalErr == "" {
			if ambiguous && (i == 0 || !isTaskGoroutine(info, w.g, ifn)) {
				continue
			}
			finals = append(finals, w)
		}
	}
	if ambiguous {
		res.Probe("stop_while_not_forwarding")
	}
	// the final RA's own build or transmission hit by an injected failure: it is
	// only logged, there is nothing to count
	finalFailed := false
	for i := range h.ev {
		e := &h.ev[i]
		if e.Seq > stopSeq && e.If == ifn && e.Err != "" && e.Err != "deadline" && (e.K == "fwd.exit" || e.K == "write.exit") && isTaskGoroutine(info, e.G, ifn) {
			finalFailed = true
		}
	}
	for _, b := range h.builds {
		// ... or one of its listings (a wildcard to expand, and the interface has
		// just been re-created under another index)
		if b.ifn != ifn || b.seq < stopSeq || !isTaskGoroutine(info, b.g, ifn) {
			continue
		}
		for _, l := range append(append([]string(nil), b.addr...), b.routes...) {
			if strings.HasPrefix(l, "!") {
				finalFailed = true
			}
		}
		if b.loopErr != "" {
			finalFailed = true
		}
	}
	if term && !unicastOnly && !finalFailed {
		if len(finals) != 1 {
			res.Violate("C08.final", fmt.Sprintf("count:%d", len(finals)), "%s: terminating (stop at %s) but %d zero-lifetime multicast RAs were sent after the stop, want exactly 1", ifn, ms(stopT), len(finals))
		}
		for _, f := range finals {
			if d, _ := contentRule(info, h, f); d != "" {
				res.Violate("C08.final", "content", "%s: final RA differs from the normal RA with router lifetime 0: %s", ifn, d)
			}
		}
		if len(finals) == 1 {
			f := finals[0]
			for _, w := range h.writes {
				if w.ifn == ifn && w.node == f.node && w.seq > f.seq {
					res.Violate("C08.last", "last", "%s: a transmission to %s (router lifetime %v) was entered at %s, after the final zero-lifetime RA entered at %s", ifn, w.dst, lifetimeOf(w), ms(w.t), ms(f.t))
				}
			}
		}
	}
	if !term {
		for _, f := range finals {
			res.Violate("C08.reload", "reload", "%s: reloading (SIGHUP at %s) but a zero-lifetime multicast RA was sent at %s", ifn, ms(stopT), ms(f.t))
		}
	}
	if unicastOnly {
		for _, w := range live.writes {
			if w.mc() {
				res.Violate("C07.unicastonly", "mc", "%s: unicast-only interface transmitted to %s", ifn, w.dst)
			}
		}
	}

	rel := lastRelease(h.ev)
	base := stopT
	if rel > base {
		base = rel
	}
	if exit == nil {
		res.Violate("C08.prompt", "never", "%s: advertiser had not returned %s after the stop (every hold was released at %s)", ifn, time.Duration(h.ev[len(h.ev)-1].T-stopT), ms(rel))
		return
	}
	if exit.T > base+nsSec {
		res.Violate("C08.prompt", "late", "%s: advertiser returned at %s, stop was at %s and the last parked call was released at %s", ifn, ms(exit.T), ms(stopT), ms(rel))
	}
	if exit.Err != "" {
		res.Violate("C08.result", "result", "%s: advertiser returned an error on shutdown: %s", ifn, exit.Err)
	}
	// Nothing may touch the connection, or read the interface state on behalf
	// of the advertiser, after Run returned.
	sockG := map[int]bool{}
	for i := range h.ev {
		e := &h.ev[i]
		if e.If == ifn && (e.K == "write.enter" || e.K == "read.enter" || e.K == "dial.enter") {
			sockG[e.G] = true
		}
	}
	for i := range h.ev {
		e := &h.ev[i]
		if e.Seq <= exit.Seq || e.If != ifn {
			continue
		}
		switch e.K {
		case "write.enter", "read.enter", "deadline":
			res.Violate("C08.afterreturn", "io:"+e.K, "%s: %s on the connection at %s, after the advertiser returned at %s", ifn, e.K, ms(e.T), ms(exit.T))
		case "fwd.enter":
			res.Violate("C08.afterreturn", "state", "%s: forwarding state read at %s, after the advertiser returned at %s", ifn, ms(e.T), ms(exit.T))
		}
	}
}

func lifetimeOf(w *write) string {
	if w.ra == nil {
		return "?"
	}
	return w.ra.RouterLifetime.String()
}

func init() {
	register("C08", nil, c08Gen, c08Oracle)
}
