package corerad

// The simulated world: everything the daemon can observe or affect. Every call
// the daemon makes into it is an event in the run's log and may be failed,
// delayed or parked by the plan's fault script.

import (
	"context"
	"errors"
	"fmt"
	"io/fs"
	"math"
	"net"
	"net/netip"
	"os"
	"sort"
	"strings"
	"sync"
	"syscall"
	"time"

	"github.com/jsimonetti/rtnetlink"
	"github.com/mdlayher/corerad/internal/system"
	"github.com/mdlayher/corerad/internal/verifsim"
	"github.com/mdlayher/metricslite"
	"github.com/mdlayher/ndp"
	"github.com/mdlayher/netlink"
	"golang.org/x/net/ipv6"
	"golang.org/x/sys/unix"
)

type world struct {
	httpL *simListener // the debug server's listener while it is listening
	mu      sync.Mutex // short critical sections only; never held while parked
	log     *verifsim.Log
	res     *verifsim.Result
	plan    *Plan
	nodes   []*wnode
	byIdx   map[int]*wiface
	loop    []RouteW
	faults  []*faultState
	ord     map[string]int // per-key call ordinals
	holds   map[string]chan struct{}
	dialing map[int]*wiface // goroutine id -> interface whose real dial() is running
	latSeq  int
	ended   bool            // run is over: every hold is open
	endC    chan struct{}   // closed at the very end of the run
	ghosts  map[int][]AddrW // interface indexes which now belong to some other interface
}

type faultState struct {
	Fault
	left    int
	skipped int
}

type wnode struct {
	w      *world
	id     int
	ifaces map[string]*wiface
	names  []string
	linkC  chan []rtnetlink.Message
	watchE chan error // scripted end of the watch source
	sigC   chan os.Signal
}

type wiface struct {
	n     *wnode
	spec  IfaceW
	fwd   bool
	auto  bool
	down  bool
	mac   net.HardwareAddr
	addrs []AddrW
	gen   int
	conn  *simConn // current generation (nil before first dial)
}

// timeoutErr is a net.Error whose Timeout is true, as an expired read deadline
// produces.
type timeoutErr struct{}

func (timeoutErr) Error() string   { return "i/o timeout" }
func (timeoutErr) Timeout() bool   { return true }
func (timeoutErr) Temporary() bool { return true }

// simErr maps a catalogue name to the error a real system would produce.
func simErr(name, op string) error {
	sys := func(e syscall.Errno) error {
		return &net.OpError{Op: op, Net: "ip6:ipv6-icmp", Err: os.NewSyscallError(op, e)}
	}
	path := func(e syscall.Errno) error {
		return &fs.PathError{Op: "open", Path: "/proc/sys/net/ipv6/conf/sim/" + op, Err: e}
	}
	switch name {
	case "":
		return nil
	case "ENETDOWN":
		return sys(syscall.ENETDOWN)
	case "ENOBUFS":
		return sys(syscall.ENOBUFS)
	case "EINVAL":
		return sys(syscall.EINVAL)
	case "EINTR": // "temporary" for package net, but not a timeout
		return sys(syscall.EINTR)
	case "EMFILE":
		return sys(syscall.EMFILE)
	case "EPERM":
		return sys(syscall.EPERM)
	case "EACCES":
		return sys(syscall.EACCES)
	case "timeout":
		return &net.OpError{Op: op, Net: "ip6:ipv6-icmp", Err: timeoutErr{}}
	case "opaque":
		return errors.New("simulated opaque failure")
	case "linknotready":
		return fmt.Errorf("interface is not ready: %w", system.ErrLinkNotReady)
	case "fs.EPERM":
		return path(syscall.EACCES)
	case "fs.ENOENT":
		return path(syscall.ENOENT)
	case "fs.EIO":
		return path(syscall.EIO)
	case "nl.EPERM":
		return &netlink.OpError{Op: "receive", Err: syscall.EPERM}
	case "nl.EINVAL":
		return &netlink.OpError{Op: "receive", Err: syscall.EINVAL}
	case "nl.ENODEV": // what a dump filtered by an interface index that is gone says
		return &netlink.OpError{Op: "receive", Err: syscall.ENODEV}
	}
	panic("sim: unknown error name " + name)
}

// decide returns the fault that applies to this seam call, if any, and the
// call's ordinal. It never blocks.
func (w *world) decide(seam string, node int, ifn, key string) (*Fault, int) {
	w.mu.Lock()
	defer w.mu.Unlock()
	class := key
	if seam == "write" {
		class = "uc"
		if a, err := netip.ParseAddr(key); err == nil && a.IsMulticast() {
			class = "mc"
		}
	}
	ok := fmt.Sprintf("%s|%d|%s|%s", seam, node, ifn, class)
	w.ord[ok]++
	n := w.ord[ok]
	if w.ended {
		return nil, n
	}
	now := w.log.Now()
	for _, f := range w.faults {
		if f.left == 0 || f.Seam != seam || f.Node != node {
			continue
		}
		if f.If != "" && f.If != ifn {
			continue
		}
		if f.Key != "" && f.Key != key && f.Key != class {
			continue
		}
		if f.N != 0 && f.N != n {
			continue
		}
		if now < f.From {
			continue
		}
		if f.skipped < f.Skip {
			f.skipped++
			continue
		}
		if f.left > 0 {
			f.left--
		}
		ff := f.Fault
		return &ff, n
	}
	return nil, n
}

// park applies the latency/hold part of a fault. It blocks durably (bubble
// channel or fake sleep) with no lock held.
func (w *world) park(f *Fault) {
	if f == nil {
		return
	}
	if f.Lat > 0 {
		w.fault("latency")
		// Two calls delayed by the same amount from the same instant would wake
		// in an order the timer heap, not the plan, decides: every delay gets
		// its own few extra nanoseconds.
		w.mu.Lock()
		w.latSeq++
		extra := time.Duration(w.latSeq%64)*17 + 1
		w.mu.Unlock()
		time.Sleep(time.Duration(f.Lat) + extra)
	}
	if f.Hold != "" {
		w.fault("hold")
		<-w.holdC(f.Hold)
	}
}

func (w *world) holdC(name string) chan struct{} {
	w.mu.Lock()
	defer w.mu.Unlock()
	c, ok := w.holds[name]
	if !ok {
		c = make(chan struct{})
		if w.ended {
			close(c)
		}
		w.holds[name] = c
	}
	return c
}

func (w *world) release(name string) {
	w.mu.Lock()
	defer w.mu.Unlock()
	c, ok := w.holds[name]
	if !ok {
		c = make(chan struct{})
		w.holds[name] = c
	}
	select {
	case <-c:
	default:
		close(c)
	}
}

// endRun opens every hold and disables the fault script.
func (w *world) endRun() {
	w.mu.Lock()
	w.ended = true
	for _, c := range w.holds {
		select {
		case <-c:
		default:
			close(c)
		}
	}
	w.mu.Unlock()
}

func faultTag(f *Fault) string {
	if f == nil {
		return ""
	}
	var p []string
	if f.Err != "" {
		p = append(p, "err="+f.Err)
	}
	if f.Lat > 0 {
		p = append(p, "lat")
	}
	if f.Hold != "" {
		p = append(p, "hold="+f.Hold)
	}
	if f.Mode != "" {
		p = append(p, "mode="+f.Mode)
	}
	return strings.Join(p, ",")
}

// ---------------------------------------------------------------- system.Conn

type packet struct {
	b   []byte
	src netip.Addr
	hop int
}

type simConn struct {
	w   *world
	ifc *wiface
	gen int

	mu       sync.Mutex
	rx       []packet
	waiter   chan struct{}
	deadline time.Time
	reading  int // ReadFrom calls currently inside
}

var _ system.Conn = &simConn{}

func (c *simConn) ev(k string) verifsim.Event {
	return verifsim.Event{K: k, Node: c.ifc.n.id, If: c.ifc.spec.Name, Gen: c.gen}
}

func (c *simConn) wake() {
	if c.waiter != nil {
		close(c.waiter)
		c.waiter = nil
	}
}

// deliver queues a packet for the daemon.
func (c *simConn) deliver(p packet) {
	c.mu.Lock()
	c.rx = append(c.rx, p)
	c.wake()
	c.mu.Unlock()
}

func (c *simConn) ReadFrom() (ndp.Message, *ipv6.ControlMessage, netip.Addr, error) {
	e := c.ev("read.enter")
	f, _ := c.w.decide("read", c.ifc.n.id, c.ifc.spec.Name, "")
	e.F = faultTag(f)
	ref := c.w.log.Add(e)
	c.mu.Lock()
	c.reading++
	c.mu.Unlock()
	defer func() {
		c.mu.Lock()
		c.reading--
		c.mu.Unlock()
	}()

	c.w.park(f)
	if f != nil && f.Err != "" {
		c.w.fault("read." + f.Err)
		err := simErr(f.Err, "read")
		x := c.ev("read.exit")
		x.Ref, x.Err = ref, f.Err
		c.w.log.Add(x)
		return nil, nil, netip.Addr{}, err
	}

	for {
		c.mu.Lock()
		if !c.deadline.IsZero() && !time.Now().Before(c.deadline) {
			c.mu.Unlock()
			x := c.ev("read.exit")
			x.Ref, x.Err = ref, "deadline"
			c.w.log.Add(x)
			return nil, nil, netip.Addr{}, simErr("timeout", "read")
		}
		if len(c.rx) > 0 {
			p := c.rx[0]
			c.rx = c.rx[1:]
			c.mu.Unlock()
			m, err := ndp.ParseMessage(p.b)
			if err != nil {
				// ndp.Conn filters unparsable messages.
				continue
			}
			if pf, _ := c.w.decide("read.post", c.ifc.n.id, c.ifc.spec.Name, ""); pf != nil {
				// the packet has been received, the call is slow to return
				// (scheduling, a busy machine): things may happen meanwhile
				c.w.log.Add(verifsim.Event{K: "read.post", Node: c.ifc.n.id, If: c.ifc.spec.Name, Gen: c.gen, F: faultTag(pf)})
				c.w.park(pf)
			}
			x := c.ev("read.exit")
			x.Ref, x.S, x.B, x.V = ref, p.src.String(), p.b, int64(p.hop)
			c.w.log.Add(x)
			return m, &ipv6.ControlMessage{HopLimit: p.hop, IfIndex: c.ifc.spec.Index}, p.src.WithZone(c.ifc.spec.Name), nil
		}
		if c.waiter == nil {
			c.waiter = make(chan struct{})
		}
		wc := c.waiter
		var tc <-chan time.Time
		if !c.deadline.IsZero() {
			tc = time.After(time.Until(c.deadline))
		}
		c.mu.Unlock()
		select {
		case <-wc:
		case <-tc:
		}
	}
}

func (c *simConn) SetReadDeadline(t time.Time) error {
	e := c.ev("deadline")
	f, _ := c.w.decide("deadline", c.ifc.n.id, c.ifc.spec.Name, "")
	e.F = faultTag(f)
	e.V = t.UnixNano()
	c.w.park(f)
	if f != nil && f.Err != "" {
		c.w.fault("deadline." + f.Err)
		e.Err = f.Err
		c.w.log.Add(e)
		return simErr(f.Err, "setsockopt")
	}
	c.w.log.Add(e)
	c.mu.Lock()
	c.deadline = t
	c.wake()
	c.mu.Unlock()
	return nil
}

func (c *simConn) WriteTo(m ndp.Message, _ *ipv6.ControlMessage, dst netip.Addr) error {
	b, merr := ndp.MarshalMessage(m)
	e := c.ev("write.enter")
	e.S, e.B = dst.String(), b
	if merr != nil {
		// Exactly what ndp.Conn.WriteTo does: fail before touching the socket.
		e.Err = "marshal: " + merr.Error()
		c.w.log.Add(e)
		return merr
	}
	f, _ := c.w.decide("write", c.ifc.n.id, c.ifc.spec.Name, dst.String())
	e.F = faultTag(f)
	ref := c.w.log.Add(e)
	c.w.park(f)
	x := c.ev("write.exit")
	x.Ref, x.S = ref, dst.String()
	if f != nil && f.Err != "" {
		c.w.fault("write." + f.Err)
		x.Err = f.Err
		c.w.log.Add(x)
		return simErr(f.Err, "write")
	}
	c.w.log.Add(x)
	c.w.transmit(c, b, dst)
	return nil
}

// transmit carries a packet to the other daemons attached to the same link.
func (w *world) transmit(from *simConn, b []byte, dst netip.Addr) {
	link := from.ifc.spec.Link
	if link == "" {
		return
	}
	src, _ := netip.ParseAddr(from.ifc.spec.LL)
	for _, n := range w.nodes {
		for _, name := range n.names {
			ifc := n.ifaces[name]
			if ifc == from.ifc || ifc.spec.Link != link {
				continue
			}
			w.mu.Lock()
			c := ifc.conn
			w.mu.Unlock()
			if c == nil {
				continue
			}
			ll, _ := netip.ParseAddr(ifc.spec.LL)
			if dst.IsMulticast() || dst == ll {
				c.deliver(packet{b: append([]byte(nil), b...), src: src, hop: 255})
			}
		}
	}
}

// --------------------------------------------------------------- system.State

type simState struct{ n *wnode }

var _ system.State = simState{}

func (s simState) get(seam, ifn string, read func(*wiface) bool) (bool, error) {
	w := s.n.w
	e := verifsim.Event{K: seam + ".enter", Node: s.n.id, If: ifn}
	f, _ := w.decide(seam, s.n.id, ifn, "")
	e.F = faultTag(f)
	ref := w.log.Add(e)
	// Mode "sampled": the kernel has produced the value, the call is slow to
	// return it (the state may change meanwhile; the caller gets what was read).
	var sampled *bool
	if f != nil && f.Mode == "sampled" {
		if ifc, ok := s.n.ifaces[ifn]; ok {
			w.mu.Lock()
			v := read(ifc)
			w.mu.Unlock()
			sampled = &v
		}
	}
	w.park(f)
	x := verifsim.Event{K: seam + ".exit", Node: s.n.id, If: ifn, Ref: ref}
	if f != nil && f.Err != "" {
		w.fault(seam + "." + f.Err)
		x.Err = f.Err
		w.log.Add(x)
		return false, simErr(f.Err, seam)
	}
	ifc, ok := s.n.ifaces[ifn]
	if !ok {
		x.Err = "fs.ENOENT"
		w.log.Add(x)
		return false, simErr("fs.ENOENT", seam)
	}
	w.mu.Lock()
	v := read(ifc)
	w.mu.Unlock()
	if sampled != nil {
		v = *sampled
	}
	if v {
		x.V = 1
	}
	w.log.Add(x)
	return v, nil
}

func (s simState) IPv6Forwarding(ifn string) (bool, error) {
	return s.get("fwd", ifn, func(i *wiface) bool { return i.fwd })
}

func (s simState) IPv6Autoconf(ifn string) (bool, error) {
	return s.get("auto.get", ifn, func(i *wiface) bool { return i.auto })
}

func (s simState) SetIPv6Autoconf(ifn string, enable bool) error {
	w := s.n.w
	e := verifsim.Event{K: "auto.set", Node: s.n.id, If: ifn}
	if enable {
		e.V = 1
	}
	f, _ := w.decide("auto.set", s.n.id, ifn, "")
	e.F = faultTag(f)
	w.park(f)
	if f != nil && f.Err != "" {
		w.fault("auto.set." + f.Err)
		e.Err = f.Err
		w.log.Add(e)
		return simErr(f.Err, "autoconf")
	}
	ifc, ok := s.n.ifaces[ifn]
	if !ok {
		e.Err = "fs.ENOENT"
		w.log.Add(e)
		return simErr("fs.ENOENT", "autoconf")
	}
	w.mu.Lock()
	ifc.auto = enable
	w.mu.Unlock()
	w.log.Add(e)
	return nil
}

// -------------------------------------------------------------------- dialing

// dialFunc replaces system.Dialer.dial for one interface: it is the stub of
// the kernel side of socket creation (interface lookup, readiness check, raw
// socket, autoconf disable).
func (ifc *wiface) dialFunc(mode system.DialerMode) func() (*system.DialContext, error) {
	return func() (*system.DialContext, error) {
		w := ifc.n.w
		e := verifsim.Event{K: "dial.enter", Node: ifc.n.id, If: ifc.spec.Name}
		f, _ := w.decide("dial", ifc.n.id, ifc.spec.Name, "")
		e.F = faultTag(f)
		ref := w.log.Add(e)
		w.park(f)
		// Creating a socket takes a little while, and a different while on every
		// interface: without this, the timers of interfaces initialised in the
		// same instant tie exactly forever, and the runtime breaks timer ties by
		// heap position, which depends on what ran earlier in the process.
		time.Sleep(time.Duration(1009*ifc.spec.Index+10007*ifc.n.id+13) * time.Nanosecond)
		x := verifsim.Event{K: "dial.exit", Node: ifc.n.id, If: ifc.spec.Name, Ref: ref}
		if f != nil && f.Err != "" {
			w.fault("dial." + f.Err)
			x.Err = f.Err
			w.log.Add(x)
			return nil, simErr(f.Err, "socket")
		}
		w.mu.Lock()
		down := ifc.down
		w.mu.Unlock()
		if down {
			x.Err = "linknotready"
			w.log.Add(x)
			return nil, simErr("linknotready", "socket")
		}

		w.mu.Lock()
		ifc.gen++
		idxNow := ifc.spec.Index
		c := &simConn{w: w, ifc: ifc, gen: ifc.gen}
		ifc.conn = c
		mac := ifc.mac
		if mode == system.Advertise {
			// Kernel-side effect of Dialer.dial in Advertise mode.
			ifc.auto = false
		}
		w.mu.Unlock()
		x.Gen = c.gen
		x.S = mac.String()
		x.V = int64(idxNow)
		w.log.Add(x)

		ll, _ := netip.ParseAddr(ifc.spec.LL)
		return &system.DialContext{
			Conn: c,
			Interface: &net.Interface{
				Index:        idxNow,
				MTU:          1500,
				Name:         ifc.spec.Name,
				HardwareAddr: mac,
				Flags:        net.FlagUp | net.FlagBroadcast | net.FlagMulticast,
			},
			IP: ll,
		}, nil
	}
}

// realDial wraps the real system.Dialer.dial (orig) for one interface: the
// simulated kernel (worldKernel, below the seams of sim/systemseams) answers its
// calls into the operating system; the wrapper only adds the dial.enter /
// dial.exit events, the injected whole-attempt faults of the "dial" seam and the
// per-interface duration of an attempt.
func (ifc *wiface) realDial(orig func() (*system.DialContext, error)) func() (*system.DialContext, error) {
	return func() (*system.DialContext, error) {
		w := ifc.n.w
		e := verifsim.Event{K: "dial.enter", Node: ifc.n.id, If: ifc.spec.Name}
		f, _ := w.decide("dial", ifc.n.id, ifc.spec.Name, "")
		e.F = faultTag(f)
		ref := w.log.Add(e)
		w.park(f)
		// (see dialFunc for why an attempt takes a little while)
		time.Sleep(time.Duration(1009*ifc.spec.Index+10007*ifc.n.id+13) * time.Nanosecond)
		x := verifsim.Event{K: "dial.exit", Node: ifc.n.id, If: ifc.spec.Name, Ref: ref}
		if f != nil && f.Err != "" {
			w.fault("dial." + f.Err)
			x.Err = f.Err
			w.log.Add(x)
			return nil, simErr(f.Err, "socket")
		}
		g := verifsim.Goid()
		w.mu.Lock()
		w.dialing[g] = ifc
		w.mu.Unlock()
		dctx, err := orig()
		w.mu.Lock()
		delete(w.dialing, g)
		w.mu.Unlock()
		if err != nil {
			x.Err = "error: " + err.Error()
			if errors.Is(err, system.ErrLinkNotReady) {
				x.Err = "linknotready"
			}
			w.log.Add(x)
			return nil, err
		}
		c := dctx.Conn.(*simConn)
		x.Gen = c.gen
		x.S = dctx.Interface.HardwareAddr.String()
		x.V = int64(dctx.Interface.Index)
		w.log.Add(x)
		return dctx, nil
	}
}

// worldKernel is the operating system below the real Dialer.dial.
type worldKernel struct{ w *world }

var _ system.SimOS = worldKernel{}

func (k worldKernel) cur() *wiface {
	k.w.mu.Lock()
	defer k.w.mu.Unlock()
	return k.w.dialing[verifsim.Goid()]
}

func (k worldKernel) InterfaceByName(name string) (*net.Interface, error) {
	ifc := k.cur()
	if ifc == nil {
		return nil, fmt.Errorf("sim: interface lookup of %q outside a dial attempt", name)
	}
	k.w.mu.Lock()
	defer k.w.mu.Unlock()
	if ifc.down {
		return nil, &net.OpError{Op: "route", Net: "ip+net", Addr: &net.IPAddr{}, Err: errors.New("no such network interface")}
	}
	return &net.Interface{
		Index:        ifc.spec.Index,
		MTU:          1500,
		Name:         ifc.spec.Name,
		HardwareAddr: ifc.mac,
		Flags:        net.FlagUp | net.FlagBroadcast | net.FlagMulticast,
	}, nil
}

func (k worldKernel) Addrs(*net.Interface) ([]net.Addr, error) {
	ifc := k.cur()
	if ifc == nil {
		return nil, errors.New("sim: address lookup outside a dial attempt")
	}
	return []net.Addr{&net.IPNet{IP: net.ParseIP(ifc.spec.LL), Mask: net.CIDRMask(64, 128)}}, nil
}

func (k worldKernel) Listen(*net.Interface, ndp.Addr) (system.SimNDPConn, netip.Addr, error) {
	ifc := k.cur()
	if ifc == nil {
		return nil, netip.Addr{}, errors.New("sim: socket outside a dial attempt")
	}
	w := k.w
	if f, _ := w.decide("sock.listen", ifc.n.id, ifc.spec.Name, ""); f != nil && f.Err != "" {
		w.fault("sock.listen." + f.Err)
		w.log.Add(verifsim.Event{K: "sock.fail", Node: ifc.n.id, If: ifc.spec.Name, S: "listen", Err: f.Err, F: faultTag(f)})
		return nil, netip.Addr{}, simErr(f.Err, "listen")
	}
	w.mu.Lock()
	ifc.gen++
	c := &simConn{w: w, ifc: ifc, gen: ifc.gen}
	ifc.conn = c
	w.mu.Unlock()
	w.log.Add(c.ev("sock.open"))
	ll, _ := netip.ParseAddr(ifc.spec.LL)
	return c, ll, nil
}

// setup is one of the calls dialNDP makes on a fresh socket; each may fail.
func (c *simConn) setup(step string) error {
	if f, _ := c.w.decide("sock."+step, c.ifc.n.id, c.ifc.spec.Name, ""); f != nil && f.Err != "" {
		c.w.fault("sock." + step + "." + f.Err)
		e := c.ev("sock.fail")
		e.S, e.Err, e.F = step, f.Err, faultTag(f)
		c.w.log.Add(e)
		return simErr(f.Err, step)
	}
	return nil
}

func (c *simConn) SetICMPFilter(*ipv6.ICMPFilter) error            { return c.setup("filter") }
func (c *simConn) SetControlMessage(ipv6.ControlFlags, bool) error { return c.setup("ctrl") }
func (c *simConn) JoinGroup(netip.Addr) error                      { return c.setup("join") }
func (c *simConn) LeaveGroup(netip.Addr) error                     { return nil }

// Close is the end of a connection's socket.
func (c *simConn) Close() error {
	c.w.log.Add(c.ev("sock.close"))
	return nil
}

// ------------------------------------------------------------- debug listener

// listen stands for net.Listen below the real httpTask (sim/coreradseams): the
// address may be busy (seam "http.listen"); a listener never accepts anything,
// requests are handed to the handler directly.
func (w *world) listen(network, addr string) (net.Listener, error) {
	e := verifsim.Event{K: "http.listen", S: addr}
	f, _ := w.decide("http.listen", 0, "", "")
	e.F = faultTag(f)
	w.park(f)
	if f != nil && f.Err != "" {
		w.fault("http.listen." + f.Err)
		e.Err = f.Err
		w.log.Add(e)
		if f.Err == "opaque" {
			return nil, errors.New("simulated opaque failure")
		}
		return nil, &net.OpError{Op: "listen", Net: network, Addr: &net.TCPAddr{IP: net.ParseIP("127.0.0.1"), Port: 9430}, Err: os.NewSyscallError("bind", syscall.EADDRINUSE)}
	}
	w.log.Add(e)
	l := &simListener{w: w, closed: make(chan struct{}), conns: make(chan net.Conn, 16)}
	w.mu.Lock()
	w.httpL = l
	w.mu.Unlock()
	return l, nil
}

// simListener accepts the connections the driver makes for "http" actions with
// Conn set (one end of a net.Pipe each); all other requests are handed to the
// handler directly.
type simListener struct {
	w      *world
	once   sync.Once
	closed chan struct{}
	conns  chan net.Conn
}

func (l *simListener) Accept() (net.Conn, error) {
	select {
	case c := <-l.conns:
		return c, nil
	case <-l.closed:
		return nil, net.ErrClosed
	}
}

func (l *simListener) Close() error {
	l.once.Do(func() {
		l.w.log.Add(verifsim.Event{K: "http.close"})
		l.w.mu.Lock()
		if l.w.httpL == l {
			l.w.httpL = nil
		}
		l.w.mu.Unlock()
		close(l.closed)
	})
	return nil
}

// connect is the client's side of a TCP connect to the debug address.
func (w *world) connect() net.Conn {
	w.mu.Lock()
	l := w.httpL
	w.mu.Unlock()
	if l == nil {
		return nil
	}
	c1, c2 := net.Pipe()
	select {
	case l.conns <- c2:
		return c1
	default:
		return nil
	}
}

func (l *simListener) Addr() net.Addr { return &net.TCPAddr{IP: net.ParseIP("127.0.0.1"), Port: 9430} }

// ------------------------------------------------------------------ rtnetlink

func addrListString(as []AddrW) string {
	p := make([]string, len(as))
	for i, a := range as {
		p[i] = fmt.Sprintf("%s/%x", a.CIDR, a.Flags)
		if a.Forever {
			p[i] += "/f"
		}
	}
	return strings.Join(p, " ")
}

func routeListString(rs []RouteW) string {
	p := make([]string, len(rs))
	for i, r := range rs {
		p[i] = r.Prefix
	}
	return strings.Join(p, " ")
}

// mutateList applies a listing fault mode (the operating system may list in
// any order and, for routes, repeat itself).
func mutateList[T any](in []T, f *Fault) []T {
	out := append([]T(nil), in...)
	if f == nil {
		return out
	}
	r := verifsim.NewRNG(uint64(f.Arg) + 7)
	switch f.Mode {
	case "perm":
		p := r.Perm(len(out))
		o2 := make([]T, len(out))
		for i, j := range p {
			o2[i] = out[j]
		}
		out = o2
	case "dup":
		if len(out) > 0 {
			k := r.Range(1, 3)
			for i := 0; i < k; i++ {
				out = append(out, out[r.Intn(len(out))])
			}
			p := r.Perm(len(out))
			o2 := make([]T, len(out))
			for i, j := range p {
				o2[i] = out[j]
			}
			out = o2
		}
	case "empty":
		out = nil
	}
	return out
}

// rtnl answers the rtnetlink requests CoreRAD makes (hook H1).
func (w *world) rtnl(m rtnetlink.Message, family uint16, flags netlink.HeaderFlags) ([]rtnetlink.Message, error) {
	switch m := m.(type) {
	case *rtnetlink.AddressMessage:
		w.mu.Lock()
		ifc := w.byIdx[int(m.Index)]
		w.mu.Unlock()
		if ifc == nil {
			// no interface has this index (any more): what the kernel says
			w.mu.Lock()
			ghost, isGhost := w.ghosts[int(m.Index)]
			w.mu.Unlock()
			x := verifsim.Event{K: "rtnl.addr.exit", V: int64(m.Index)}
			if !isGhost {
				w.log.Add(verifsim.Event{K: "rtnl.addr.enter", V: int64(m.Index)})
				x.Err = "ENODEV"
				w.log.Add(x)
				return nil, &netlink.OpError{Op: "receive", Err: syscall.ENODEV}
			}
			// the index now belongs to some other interface
			w.log.Add(verifsim.Event{K: "rtnl.addr.enter", V: int64(m.Index)})
			x.S = addrListString(ghost)
			w.log.Add(x)
			out := make([]rtnetlink.Message, 0, len(ghost))
			for _, a := range ghost {
				p := netip.MustParsePrefix(a.CIDR)
				out = append(out, &rtnetlink.AddressMessage{
					Family: unix.AF_INET6, PrefixLength: uint8(p.Bits()), Flags: uint8(a.Flags), Index: m.Index,
					Attributes: &rtnetlink.AddressAttributes{Address: net.IP(p.Addr().AsSlice()), CacheInfo: rtnetlink.CacheInfo{Valid: 3600, Prefered: 3600}, Flags: a.Flags},
				})
			}
			return out, nil
		}
		e := verifsim.Event{K: "rtnl.addr.enter", Node: ifc.n.id, If: ifc.spec.Name, V: int64(m.Index)}
		f, _ := w.decide("rtnl.addr", ifc.n.id, ifc.spec.Name, "")
		e.F = faultTag(f)
		ref := w.log.Add(e)
		// Mode "sampled": the kernel has made its list, the answer is slow to
		// arrive (the table may change meanwhile; the caller gets the old list).
		var sampled []AddrW
		isSampled := f != nil && f.Mode == "sampled"
		if isSampled {
			w.mu.Lock()
			sampled = append([]AddrW(nil), ifc.addrs...)
			w.mu.Unlock()
		}
		w.park(f)
		x := verifsim.Event{K: "rtnl.addr.exit", Node: ifc.n.id, If: ifc.spec.Name, Ref: ref, V: int64(m.Index)}
		if f != nil && f.Err != "" {
			w.fault("rtnl.addr." + f.Err)
			x.Err = f.Err
			w.log.Add(x)
			return nil, simErr(f.Err, "rtnl")
		}
		w.mu.Lock()
		list := mutateList(ifc.addrs, f)
		w.mu.Unlock()
		if isSampled {
			list = sampled
		}
		if f != nil && f.Mode != "" {
			w.fault("rtnl.addr." + f.Mode)
		}
		x.S = addrListString(list)
		w.log.Add(x)
		out := make([]rtnetlink.Message, 0, len(list))
		for _, a := range list {
			p := netip.MustParsePrefix(a.CIDR)
			valid := uint32(3600)
			if a.Forever {
				valid = math.MaxUint32
			}
			out = append(out, &rtnetlink.AddressMessage{
				Family:       unix.AF_INET6,
				PrefixLength: uint8(p.Bits()),
				Flags:        uint8(a.Flags),
				Index:        uint32(ifc.spec.Index),
				Attributes: &rtnetlink.AddressAttributes{
					Address:   net.IP(p.Addr().AsSlice()),
					CacheInfo: rtnetlink.CacheInfo{Valid: valid, Prefered: valid},
					Flags:     a.Flags,
				},
			})
		}
		return out, nil

	case *rtnetlink.RouteMessage:
		idx := int(m.Attributes.OutIface)
		e := verifsim.Event{K: "rtnl.route.enter", V: int64(idx)}
		f, _ := w.decide("rtnl.route", 0, "", "")
		e.F = faultTag(f)
		ref := w.log.Add(e)
		w.park(f)
		x := verifsim.Event{K: "rtnl.route.exit", V: int64(idx), Ref: ref}
		if f != nil && f.Err != "" {
			w.fault("rtnl.route." + f.Err)
			x.Err = f.Err
			w.log.Add(x)
			return nil, simErr(f.Err, "rtnl")
		}
		w.mu.Lock()
		var mine []RouteW
		for _, r := range w.loop {
			ri := r.Idx
			if ri == 0 {
				ri = 1
			}
			if ri == idx {
				mine = append(mine, r)
			}
		}
		w.mu.Unlock()
		mine = mutateList(mine, f)
		if f != nil && f.Mode != "" {
			w.fault("rtnl.route." + f.Mode)
		}
		x.S = routeListString(mine)
		w.log.Add(x)
		out := make([]rtnetlink.Message, 0, len(mine))
		for _, r := range mine {
			p := netip.MustParsePrefix(r.Prefix)
			rm := &rtnetlink.RouteMessage{
				Family:    unix.AF_INET6,
				DstLength: uint8(p.Bits()),
				Table:     unix.RT_TABLE_MAIN,
				Type:      unix.RTN_UNICAST,
				Attributes: rtnetlink.RouteAttributes{
					Dst:      net.IP(p.Addr().AsSlice()),
					OutIface: uint32(idx),
					Table:    unix.RT_TABLE_MAIN,
				},
			}
			if r.Pref != nil {
				v := uint8(*r.Pref)
				rm.Attributes.Pref = &v
			}
			if r.Type != 0 {
				rm.Type = uint8(r.Type)
			}
			out = append(out, rm)
		}
		return out, nil
	}
	panic(fmt.Sprintf("sim: unexpected rtnetlink request %T", m))
}

// loopbacks names the loopback interfaces (hook H1).
func (w *world) loopbacks() ([]int, error) {
	e := verifsim.Event{K: "loopbacks"}
	f, _ := w.decide("loopbacks", 0, "", "")
	e.F = faultTag(f)
	w.park(f)
	if f != nil && f.Err != "" {
		w.fault("loopbacks." + f.Err)
		e.Err = f.Err
		w.log.Add(e)
		return nil, simErr(f.Err, "route")
	}
	w.log.Add(e)
	idx := w.plan.LoopIdx
	if len(idx) == 0 {
		idx = []int{1}
	}
	return append([]int(nil), idx...), nil
}

// ------------------------------------------------------------------------ log

type simLogWriter struct{ n *wnode }

func (l simLogWriter) Write(p []byte) (int, error) {
	w := l.n.w
	e := verifsim.Event{K: "log", Node: l.n.id, S: strings.TrimRight(string(p), "\n")}
	// Interface name prefix, when the line has one.
	if i := strings.Index(e.S, ": "); i > 0 {
		if _, ok := l.n.ifaces[e.S[:i]]; ok {
			e.If = e.S[:i]
		}
	}
	f, _ := w.decide("log", l.n.id, e.If, "")
	e.F = faultTag(f)
	w.log.Add(e)
	// NOTE: log.Logger holds its own mutex around Write; parking here is only
	// safe in scenarios where no other goroutine logs meanwhile (C20 scripted).
	w.park(f)
	return len(p), nil
}

type simNotifyWriter struct{ n *wnode }

func (l simNotifyWriter) Write(p []byte) (int, error) {
	w := l.n.w
	e := verifsim.Event{K: "notify", Node: l.n.id, S: string(p)}
	f, _ := w.decide("notify", l.n.id, "", "")
	e.F = faultTag(f)
	w.log.Add(e)
	w.park(f)
	if f != nil && f.Err != "" {
		// the supervisor's socket has gone away
		return 0, simErr(f.Err, "write")
	}
	return len(p), nil
}

func (simNotifyWriter) Close() error { return nil }

// -------------------------------------------------------------------- metrics

// recMetrics wraps the metrics backend so that every counter increment and
// gauge update the daemon makes is an event.
type recMetrics struct {
	metricslite.Interface
	n *wnode
}

func (r recMetrics) rec(kind, name string, labelNames []string, inner func(float64, ...string)) func(float64, ...string) {
	return func(v float64, labels ...string) {
		kv := make([]string, 0, len(labels))
		for i, l := range labels {
			ln := "?"
			if i < len(labelNames) {
				ln = labelNames[i]
			}
			kv = append(kv, ln+"="+l)
		}
		e := verifsim.Event{K: kind, Node: r.n.id, S: name + "{" + strings.Join(kv, ",") + "}"}
		// Values are integers or UNIX seconds in this code base; keep µ-precision.
		e.V = int64(math.Round(v * 1e6))
		r.n.w.log.Add(e)
		inner(v, labels...)
	}
}

func (r recMetrics) Counter(name, help string, labelNames ...string) metricslite.Counter {
	return r.rec("counter", name, labelNames, r.Interface.Counter(name, help, labelNames...))
}

func (r recMetrics) Gauge(name, help string, labelNames ...string) metricslite.Gauge {
	return r.rec("gauge", name, labelNames, r.Interface.Gauge(name, help, labelNames...))
}

// Series passes through to a memory backend.
func (r recMetrics) Series() map[string]metricslite.Series {
	if m, ok := r.Interface.(*metricslite.Memory); ok {
		return m.Series()
	}
	return nil
}

// ---------------------------------------------------------------- link events

// watchSource is the simulated rtnetlink link-event socket (hook H2).
func (n *wnode) watchSource(ctx context.Context, emit func([]rtnetlink.Message)) error {
	n.w.log.Add(verifsim.Event{K: "watch.enter", Node: n.id})
	for {
		select {
		case <-ctx.Done():
			// the real watcher only notices a cancellation when its pending
			// read is interrupted: seam "watch.stop" makes that take a while
			f, _ := n.w.decide("watch.stop", n.id, "", "")
			n.w.park(f)
			x := verifsim.Event{K: "watch.exit", Node: n.id, F: faultTag(f)}
			n.w.log.Add(x)
			return nil
		case err := <-n.watchE:
			x := verifsim.Event{K: "watch.exit", Node: n.id}
			if err != nil {
				x.Err = err.Error()
			}
			n.w.log.Add(x)
			return err
		case msgs := <-n.linkC:
			emit(msgs)
		}
	}
}

func operState(s string) rtnetlink.OperationalState {
	switch s {
	case "unknown":
		return rtnetlink.OperStateUnknown
	case "notpresent":
		return rtnetlink.OperStateNotPresent
	case "down":
		return rtnetlink.OperStateDown
	case "lowerlayerdown":
		return rtnetlink.OperStateLowerLayerDown
	case "testing":
		return rtnetlink.OperStateTesting
	case "dormant":
		return rtnetlink.OperStateDormant
	case "up":
		return rtnetlink.OperStateUp
	}
	return rtnetlink.OperationalState(200)
}

func sortedKeys[V any](m map[string]V) []string {
	k := make([]string, 0, len(m))
	for s := range m {
		k = append(k, s)
	}
	sort.Strings(k)
	return k
}
