//go:build !verif_nodirect

package corerad

// C05, component altitude: the real Advertiser.multicast loop and multicastDelay
// driven directly. This file names unexported identifiers and their signatures;
// when a change to /repo renames or re-shapes them the runner builds the harness
// again with the tag verif_nodirect, and C05 runs on its black-box populations
// only (the running daemon), instead of not running at all.

import (
	"context"
	"fmt"
	"math/rand"
	"net/netip"
	"time"

	"github.com/mdlayher/corerad/internal/config"
	"github.com/mdlayher/corerad/internal/verifsim"
)

// scriptedSource is a rand.Source whose Int63 values are scripted: the PRNG is
// a nondeterminism source behind a seam like any other.
type scriptedSource struct {
	v []int64
	i int
}

func (s *scriptedSource) Int63() int64 {
	x := s.v[s.i%len(s.v)]
	s.i++
	return x
}
func (s *scriptedSource) Seed(int64) {}

func init() {
	c05Direct = true
	scenarios["multicast"] = func(w *world, p *Plan, info *runInfo) {
		const waits = 6
		done := make(chan struct{})
		running := 0
		for j, st := range p.Steps {
			j, st := j, st
			a := &Advertiser{cfg: config.Interface{Name: "eth0", MinInterval: time.Duration(st.A), MaxInterval: time.Duration(st.B)}}
			ctx, cancel := context.WithCancel(context.Background())
			ipC := make(chan netip.Addr)
			go func() {
				// every pair starts at its own instant: whole-second waits of
				// different pairs then never tie (timer ties are broken by the
				// runtime, not by the plan), and every loop seeds its PRNG differently
				time.Sleep(time.Duration(1+j*1009) * time.Nanosecond)
				a.multicast(ctx, ipC)
				w.log.Add(verifsim.Event{K: "mc.returned", Node: j})
			}()
			running++
			go func() {
				defer func() { done <- struct{}{} }()
				for k := 0; k <= waits; k++ {
					if st.S == "stall" && k < len(st.L) && st.L[k] > 0 {
						time.Sleep(time.Duration(st.L[k]))
						w.fault("consumer_stall")
					}
					<-ipC
					w.log.Add(verifsim.Event{K: "mc.req", Node: j, V: int64(k)})
				}
				// the loop is now in its wait: stop it and make sure it stops
				cancel()
				w.log.Add(verifsim.Event{K: "mc.cancel", Node: j})
				if st.S == "regen" {
					// outage, then the next generation on the same Advertiser
					time.Sleep(time.Duration(st.L[0]))
					ctx2, cancel2 := context.WithCancel(context.Background())
					ipC2 := make(chan netip.Addr)
					go func() {
						a.multicast(ctx2, ipC2)
						w.log.Add(verifsim.Event{K: "mc.returned", Node: j, V: 2})
					}()
					for k := 0; k <= 4; k++ {
						<-ipC2
						w.log.Add(verifsim.Event{K: "mc.req2", Node: j, V: int64(k)})
					}
					cancel2()
					select {
					case <-ipC2:
						w.log.Add(verifsim.Event{K: "mc.req", Node: j, V: -1})
					case <-time.After(time.Duration(st.B) + 20*time.Second):
					}
					return
				}
				select {
				case <-ipC:
					w.log.Add(verifsim.Event{K: "mc.req", Node: j, V: -1})
				case <-time.After(time.Duration(st.B) + 20*time.Second):
				}
			}()

			// Extreme and boundary draws through the *rand.Rand parameter.
			if st.A != st.B {
				n := st.B - st.A
				draws := []int64{0, n - 1, n / 2}
				// values straddling the first and the last half-second rounding boundary
				first := (nsSec/2 - st.A%nsSec + nsSec) % nsSec
				for _, b := range []int64{first, first + (n-1-first)/nsSec*nsSec} {
					for _, d := range []int64{b - 1, b, b + 1} {
						if d >= 0 && d < n {
							draws = append(draws, d)
						}
					}
				}
				for _, v := range draws {
					for _, i := range []int{0, 2, 3, 10} {
						d := multicastDelay(rand.New(&scriptedSource{v: []int64{v}}), i, time.Duration(st.A), time.Duration(st.B))
						w.log.Add(verifsim.Event{K: "mc.delay", Node: j, V: int64(d), S: fmt.Sprintf("i=%d draw=%d", i, v)})
					}
				}
			} else {
				for _, i := range []int{0, 3} {
					d := multicastDelay(rand.New(&scriptedSource{v: []int64{0}}), i, time.Duration(st.A), time.Duration(st.B))
					w.log.Add(verifsim.Event{K: "mc.delay", Node: j, V: int64(d), S: fmt.Sprintf("i=%d static", i)})
				}
			}
		}
		for ; running > 0; running-- {
			<-done
		}
	}
}
