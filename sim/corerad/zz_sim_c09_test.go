package corerad

// C09 — invalid NDP messages are ignored and can never disrupt service.

import (
	"fmt"
	"strings"
	"time"

	"github.com/mdlayher/corerad/internal/verifsim"
	"github.com/mdlayher/ndp"
)

// One interface in monitor mode.
func oneMonitor(rng *verifsim.RNG) *Plan {
	p := oneAdvertiser(rng)
	s := &p.Nodes[0].Config.Interfaces[0]
	s.Advertise, s.Monitor = false, true
	return p
}

const c09HopValues = 255 // 0..254

func c09Enum(tier string) int {
	// every invalid hop limit, for RS and RA, on an advertiser and on a monitor
	return c09HopValues * 4
}

func invalidSrc(k int) string { return fmt.Sprintf("fe80::bad:%x", k+1) }

func c09Gen(rng *verifsim.RNG, idx int, tier string) *Plan {
	monitor := rng.Bool(0.35)
	if idx < c09Enum(tier) {
		monitor = idx/c09HopValues >= 2
	}
	var p *Plan
	if monitor {
		p = oneMonitor(rng)
	} else {
		p = oneAdvertiser(rng)
		p.Nodes[0].Config.Interfaces[0].MaxInterval = sp([]string{"4s", "600s"}[rng.Intn(2)])
	}
	p.Nodes[0].Config.Interfaces[0].Verbose = rng.Bool(0.3)
	p.Nodes[0].Metrics = []string{"prom", "mem"}[rng.Intn(2)]
	peerRA := &RASpec{Hop: 64, Lifetime: 1800, Opts: []OptSpec{{Kind: "prefix", Prefix: "2001:db8:5::/64", OnLink: true, Auto: true, Valid: 86400, Pref: 14400}}}

	if idx < c09Enum(tier) {
		p.Class = "single-hop-limit"
		hop := idx % c09HopValues
		kind := []string{"rs", "ra"}[(idx/c09HopValues)%2]
		a := Action{At: nsSec + jitter(rng), Kind: kind, If: "eth0", Src: invalidSrc(0), Hop: ip(hop)}
		if kind == "ra" {
			a.RA = peerRA
		}
		p.Actions = append(p.Actions, a, rsAction(2*nsSec+jitter(rng), hostAddr(0)))
		p.Horizon = 4 * nsSec
		return p
	}

	p.Class = "runs"
	t := int64(rng.Dur(100*time.Millisecond, 3*time.Second))
	groups := rng.Range(1, 4)
	firstRun := 0
	for g := 0; g < groups; g++ {
		k := rng.Range(1, 12) // consecutive invalid messages; the receive retry budget is 5
		if g == 0 {
			firstRun = k
		}
		gap := int64(0)
		if rng.Bool(0.5) {
			gap = int64(rng.Dur(0, 300*time.Millisecond))
		}
		for i := 0; i < k; i++ {
			a := Action{At: t + jitter(rng), If: "eth0", Src: invalidSrc(rng.Intn(3))}
			switch rng.Pick(5, 2, 2, 2) {
			case 0:
				a.Kind, a.Hop = "rs", ip(rng.Intn(255))
			case 1:
				a.Kind, a.Hop, a.RA = "ra", ip(rng.Intn(255)), peerRA
			case 2:
				a.Kind = "ns"
				if monitor || rng.Bool(0.3) {
					a.Hop = ip(rng.Intn(255))
				}
			default:
				a.Kind = "na"
				if monitor || rng.Bool(0.3) {
					a.Hop = ip(rng.Intn(255))
				}
			}
			if rng.Bool(0.1) {
				a.Src = "::"
				if a.Kind == "na" {
					a.Src = invalidSrc(0)
				}
			}
			if rng.Bool(0.1) {
				// a valid solicitation in the socket right behind the invalid message
				t := rsAction(a.At, hostAddr(rng.Intn(3)))
				a.Then = &t
			}
			p.Actions = append(p.Actions, a)
			t += gap
		}
		// valid messages that follow
		t += int64(rng.Dur(10*time.Millisecond, 2*time.Second))
		for i, n := 0, rng.Range(1, 3); i < n; i++ {
			if rng.Bool(0.7) {
				p.Actions = append(p.Actions, rsAction(t+jitter(rng), hostAddr(rng.Intn(3))))
			} else {
				p.Actions = append(p.Actions, Action{At: t + jitter(rng), Kind: "ra", If: "eth0", Src: "fe80::beef", RA: peerRA})
			}
			t += int64(rng.Dur(time.Millisecond, 700*time.Millisecond))
		}
		t += int64(rng.Dur(0, 2*time.Second))
	}
	if rng.Bool(0.2) {
		p.Class = "runs+timeouts"
		// (up to four in a row - one fewer than the receive budget - and half of the
		// time right behind the first run of invalid messages, which must not
		// have used up any of it)
		n := rng.Range(2, 10)
		if rng.Bool(0.5) {
			n = firstRun + 1
		}
		p.Faults = append(p.Faults, Fault{Seam: "read", Err: "timeout", Skip: n - 1, Count: rng.Range(1, 4)})
	}
	if p.Class == "runs" && rng.Bool(0.25) {
		// A recoverable receive error (the link went away under the socket)
		// among the invalid messages: the connection is re-established and the
		// valid messages that follow are served.
		p.Class = "runs+read-fault"
		n := firstRun + 1 // the read right after the first run of invalid messages
		if rng.Bool(0.4) {
			n = rng.Range(1, len(p.Actions)+1)
		}
		p.Faults = append(p.Faults, Fault{Seam: "read", Err: []string{"ENETDOWN", "ENOBUFS"}[rng.Intn(2)], N: n})
	}
	if p.Class == "runs" && rng.Bool(0.2) {
		// An invalid message that is out of the socket queue when the connection
		// is given up (link change) or the daemon is stopped, its receive only
		// returning afterwards: ignored all the same.
		p.Class = "runs+cancel-during-receive"
		var inv []int
		for i, a := range p.Actions {
			if a.Hop != nil && *a.Hop != 255 {
				inv = append(inv, i)
			}
		}
		if len(inv) > 0 {
			a := p.Actions[inv[rng.Intn(len(inv))]]
			lat := int64(rng.Dur(10*time.Millisecond, 800*time.Millisecond))
			p.Faults = append(p.Faults, Fault{Seam: "read.post", From: a.At - 1000, Count: 1, Lat: lat})
			if rng.Bool(0.6) {
				p.Actions = append(p.Actions, Action{At: a.At + lat/2, Kind: "link", If: "eth0", Oper: "down"})
				p.Class += "+reinit"
			} else {
				// the stop itself
				var keep []Action
				for _, b := range p.Actions {
					if b.At <= a.At+lat/2 {
						keep = append(keep, b)
					}
				}
				p.Actions = keep
				p.Horizon = a.At + lat/2
				return p
			}
		}
	}
	maybeReinit(rng, p, "eth0", 50*nsMs, t, 0.2)
	p.Horizon = t + 3*nsSec
	return p
}

// isInvalid reports whether a received message fails validation on this kind
// of interface, and its type name as used in metric labels.
func isInvalid(r *rx, monitor bool) bool {
	if r.hop != 255 {
		return true
	}
	if monitor {
		return false
	}
	switch r.msg.(type) {
	case *ndp.RouterSolicitation, *ndp.RouterAdvertisement:
		return false
	}
	return true
}

func c09Oracle(info *runInfo, res *verifsim.Result) {
	if info.rejected[0] != "" {
		res.Skipped = "config_rejected"
		return
	}
	h := analyse(info.ev)
	spec := &info.plan.Nodes[0].Config.Interfaces[0]
	ifn, monitor := spec.Name, spec.Monitor
	stopT, stopSeq, _ := stopInstant(h, 0)

	// Effects of each delivered message: what the listener goroutine did between
	// returning from this read and entering the next one.
	type span struct {
		r       *rx
		effects []string
	}
	bySeq := map[int]*rx{}
	for _, g := range h.gens {
		for _, r := range g.rxs {
			bySeq[r.seq] = r
		}
	}
	var cur *span
	curG := 0
	invalidByType := map[string]int64{}
	nInvalid, maxRun, run := 0, 0, 0
	validAfterInvalid := 0
	for i := range h.ev {
		e := &h.ev[i]
		if e.K == "read.exit" && e.Err == "" && e.If == ifn {
			r := bySeq[e.Seq]
			cur, curG = &span{r: r}, e.G
			if isInvalid(r, monitor) {
				nInvalid++
				run++
				if run > maxRun {
					maxRun = run
				}
				invalidByType[r.msg.Type().String()]++
			} else {
				if run > 0 {
					validAfterInvalid++
				}
				run = 0
			}
			continue
		}
		if cur == nil || e.G != curG {
			continue
		}
		if e.K == "read.enter" {
			cur = nil
			continue
		}
		if !isInvalid(cur.r, monitor) {
			continue
		}
		bad := ""
		switch e.K {
		case "fwd.enter":
			bad = "a consistency check (RA build)"
		case "inconsistent":
			bad = "the inconsistency hook"
		case "onmessage":
			bad = "the monitor callback"
		case "write.enter":
			bad = "a transmission"
		case "counter", "gauge":
			if !strings.HasPrefix(e.S, "corerad_messages_received_invalid_total{") {
				bad = "metric update " + e.S
			}
		}
		if bad != "" {
			res.Violate("C09.silent", "effect:"+e.K, "%s: invalid %s from %s (hop limit %d) received at %s triggered %s", ifn, cur.r.msg.Type(), cur.r.src, cur.r.hop, ms(cur.r.t), bad)
		}
	}
	// An invalid solicitation must not be answered: its sources never send valid ones.
	validSrc := map[string]bool{}
	for _, g := range h.gens {
		for _, r := range g.rxs {
			if _, ok := r.msg.(*ndp.RouterSolicitation); ok && r.hop == 255 {
				validSrc[r.src.String()] = true
			}
		}
	}
	for _, w := range h.writes {
		if w.ifn == ifn && strings.HasPrefix(w.dst.String(), "fe80::bad:") && !validSrc[w.dst.String()] {
			res.Violate("C09.silent", "answered", "%s: RA transmitted to %s at %s, a host that only ever sent invalid messages", ifn, w.dst, ms(w.t))
		}
	}

	// Nor by a multicast one. With max_interval = 600s the unsolicited RAs of a
	// connection go out at 0 s, (3 s,) 16 s, 32 s ... after it came up, so a
	// multicast RA between 4 s and 15.9 s must be the answer to a valid
	// solicitation from :: received in the 3.5 s before it.
	if !monitor && spec.MaxInterval != nil && *spec.MaxInterval == "600s" {
		for _, g := range h.gens {
			if g.ifn != ifn {
				continue
			}
			for _, w := range g.writes {
				if !w.mc() || w.t-g.t0 < 4*nsSec || w.t-g.t0 > 15900*nsMs || (stopSeq != 0 && w.seq > stopSeq) {
					continue
				}
				accounted := false
				for _, r := range g.rxs {
					if _, ok := r.msg.(*ndp.RouterSolicitation); ok && r.hop == 255 && r.src.IsUnspecified() && r.t <= w.t && r.t >= w.t-3500*nsMs {
						accounted = true
					}
				}
				if !accounted {
					res.Violate("C09.silent", "answered-multicast", "%s: multicast RA at %s (%s into its connection) although no valid solicitation from :: had arrived in the 3.5 s before it and no unsolicited RA was due", ifn, ms(w.t), time.Duration(w.t-g.t0))
				}
			}
		}
	}

	// Nor may an invalid message set off an answer to somebody else: at no point
	// of a connection's life have more unicast RAs been sent to a host than valid
	// solicitations from it had been received on that connection by then.
	if !monitor {
		for _, g := range h.gens {
			if g.ifn != ifn {
				continue
			}
			sent := map[string]int{}
			for _, w := range g.writes {
				if w.mc() {
					continue
				}
				d := w.dst.String()
				sent[d]++
				asked, lastInvalid := 0, (*rx)(nil)
				for _, r := range g.rxs {
					if r.seq > w.seq {
						break
					}
					if _, ok := r.msg.(*ndp.RouterSolicitation); ok && r.hop == 255 && r.src == w.dst {
						asked++
					} else if isInvalid(r, monitor) {
						lastInvalid = r
					}
				}
				if sent[d] > asked && lastInvalid != nil {
					res.Violate("C09.silent", "answered-other", "%s gen %d: RA #%d to %s at %s is the %d. sent to that host, which had sent %d valid solicitation(s) by then; the last invalid message before it (%s from %s, hop limit %d) arrived at %s", ifn, g.gen, w.seq, d, ms(w.t), sent[d], asked, lastInvalid.msg.Type(), lastInvalid.src, lastInvalid.hop, ms(lastInvalid.t))
					break
				}
			}
		}
	}

	// Counted, by type.
	got := map[string]int64{}
	for i := range h.ev {
		e := &h.ev[i]
		if e.K == "counter" && strings.HasPrefix(e.S, "corerad_messages_received_invalid_total{interface="+ifn+",message=") {
			t := strings.TrimSuffix(strings.TrimPrefix(e.S, "corerad_messages_received_invalid_total{interface="+ifn+",message="), "}")
			got[t] += e.V / 1e6
		}
	}
	for t, n := range invalidByType {
		if got[t] != n {
			res.Violate("C09.counted", "count", "%s: corerad_messages_received_invalid_total{message=%q} = %d, but %d invalid messages of that type were received", ifn, t, got[t], n)
		}
	}
	for t, n := range got {
		if invalidByType[t] == 0 && n != 0 {
			res.Violate("C09.counted", "overcount", "%s: corerad_messages_received_invalid_total{message=%q} = %d, but no invalid message of that type was received", ifn, t, n)
		}
	}

	// Alive: in populations without injected faults nothing may stop the task
	// or its listener before the stop.
	// (the timeout population injects at most 3 consecutive receive timeouts, which
	// must be survived: the liveness rules apply there too)
	{
		for i := range h.ev {
			e := &h.ev[i]
			if e.K == "task.exit" && taskIface(e.S) == ifn && (stopSeq == 0 || e.Seq < stopSeq) {
				res.Violate("C09.alive", "stopped", "%s: task ended at %s before any stop was requested: %s", ifn, ms(e.T), e.Err)
			}
		}
		if len(h.gens) > 1 && !strings.Contains(info.plan.Class, "+reinit") && !strings.Contains(info.plan.Class, "+read-fault") {
			res.Violate("C09.alive", "redialled", "%s: the connection was re-established %d times although nothing but (in)valid messages arrived", ifn, len(h.gens)-1)
		}
		// every message delivered to a connection is read: a packet left in the
		// socket queue means nobody is listening any more
		h.unreadDeliveries(ifn, stopT, func() { res.Probe("connection_given_up_while_listener_busy") }, func(g *generation, delivered int, cutT int64) {
			res.Violate("C09.alive", "deaf", "%s gen %d: %d messages were delivered before %s but only %d were ever read: the listener stopped reading", ifn, g.gen, delivered, ms(cutT), len(g.rxs))
		})
		// valid solicitations after invalid ones are answered (advertiser)
		if !monitor {
			c09Answered(info, res, h, ifn, stopT)
		}
	}
	if maxRun >= 5 {
		res.Probe("five_consecutive_invalid")
	}
	if validAfterInvalid > 0 {
		res.Probe("valid_after_invalid")
	}
	res.Nontrivial = nInvalid >= 1 && validAfterInvalid >= 1
}

// c09Answered: every valid unicast solicitation whose 500 ms window closed
// before the stop got an answer (C07's rule, reported as C09.alive).
func c09Answered(info *runInfo, res *verifsim.Result, h *history, ifn string, stopT int64) {
	for _, g := range h.gens {
		if g.ifn != ifn {
			continue
		}
		need := map[string]int{}
		for _, r := range g.rxs {
			if r.hop != 255 || r.src.IsUnspecified() {
				continue
			}
			if _, ok := r.msg.(*ndp.RouterSolicitation); !ok {
				continue
			}
			if stopT != 0 && r.t+maxRADelayNs > stopT {
				continue
			}
			if g.endSeq != 0 && r.t+maxRADelayNs > g.tEnd || g.doomT != 0 && r.t+maxRADelayNs > g.doomT {
				continue // re-initialised before it was due
			}
			need[r.src.String()]++
		}
		for _, w := range g.writes {
			if !w.mc() {
				need[w.dst.String()]--
			}
		}
		for dst, n := range need {
			if n > 0 {
				res.Violate("C09.alive", "unanswered", "%s: %d valid solicitation(s) from %s went unanswered", ifn, n, dst)
			}
		}
	}
}

func init() {
	register("C09", c09Enum, c09Gen, c09Oracle)
}
