//go:build verif_nodirect

package corerad

// Built instead of zz_sim_direct_test.go and zz_sim_c05direct_test.go when those
// do not compile against the tree (renamed or re-shaped unexported identifiers):
// scripted tasks then only know the terminate predicate if an Advertiser carries
// one, and C20.termflag is not judged for them otherwise.

func serverTerminate(s *Server) func() bool { return nil }

const directAccess = false
