package corerad

// ramodel: the reference model "configuration + system state -> router
// advertisement on the wire", written from the property statements, RFC 4861
// and docs/reference.toml — not from the implementation. Values are in wire
// units (whole seconds; whole milliseconds for the two timers).

import (
	"fmt"
	"net/netip"
	"sort"
	"strconv"
	"strings"
	"time"

	"github.com/mdlayher/ndp"
	"golang.org/x/sys/unix"
)

const (
	max32     = int64(0xffffffff)
	unrepMark = int64(-1 << 62)
)

// An xopt is one option as found on the wire.
type xopt struct {
	fixed string  // kind and every non-lifetime field
	v     []int64 // lifetime fields
}

func (o xopt) String() string { return fmt.Sprintf("%s %v", o.fixed, o.v) }

// An eopt is one expected option; lifetimes are intervals because a build that
// took (fake) time may have read the clock anywhere inside it.
type eopt struct {
	fixed  string
	lo, hi []int64
	dep    bool // from a deprecated stanza (counts down)

	// typed copies for models that need values rather than strings
	kind  string
	pfx   netip.Prefix
	rpref string
	list  []string // servers / domain names
	num   int64    // mtu
	str   string   // captive portal URI
	// a second rendering that is just as good (RDNSS: the wildcard's pick is
	// also a configured server - listed once or twice, the property does not say)
	altFixed string
	// the stanza this option was expanded from ("prefix#0", "route#1"): options
	// of one stanza in one RA share that stanza's lifetimes
	stanza string
}

func (o eopt) String() string {
	p := make([]string, len(o.lo))
	for i := range o.lo {
		if o.lo[i] == o.hi[i] {
			p[i] = strconv.FormatInt(o.lo[i], 10)
		} else {
			p[i] = fmt.Sprintf("%d..%d", o.lo[i], o.hi[i])
		}
	}
	return fmt.Sprintf("%s [%s]", o.fixed, strings.Join(p, " "))
}

func (o eopt) matches(x xopt) bool {
	if (o.fixed != x.fixed && (o.altFixed == "" || o.altFixed != x.fixed)) || len(o.lo) != len(x.v) {
		return false
	}
	for i, v := range x.v {
		if v < o.lo[i] || v > o.hi[i] {
			return false
		}
	}
	return true
}

func prefName(p ndp.Preference) string {
	switch p {
	case ndp.Low:
		return "low"
	case ndp.High:
		return "high"
	case ndp.Medium:
		return "medium"
	}
	return fmt.Sprintf("pref(%d)", int(p))
}

// wireHeader renders the header of a decoded RA canonically, without the
// router lifetime (returned separately).
func wireHeader(ra *ndp.RouterAdvertisement) (string, int64) {
	return fmt.Sprintf("hop=%d M=%t O=%t pref=%s reach=%dms retrans=%dms home=%t proxy=%t",
			ra.CurrentHopLimit, ra.ManagedConfiguration, ra.OtherConfiguration, prefName(ra.RouterSelectionPreference),
			ra.ReachableTime.Milliseconds(), ra.RetransmitTimer.Milliseconds(), ra.MobileIPv6HomeAgent, ra.NeighborDiscoveryProxy),
		int64(ra.RouterLifetime / time.Second)
}

func secs(d time.Duration) int64 { return int64(d / time.Second) }

// wireOpts renders the options of a decoded RA canonically.
func wireOpts(ra *ndp.RouterAdvertisement) []xopt {
	var out []xopt
	for _, o := range ra.Options {
		switch o := o.(type) {
		case *ndp.PrefixInformation:
			out = append(out, xopt{
				fixed: fmt.Sprintf("prefix %s/%d L=%t A=%t", o.Prefix, o.PrefixLength, o.OnLink, o.AutonomousAddressConfiguration),
				v:     []int64{secs(o.ValidLifetime), secs(o.PreferredLifetime)},
			})
		case *ndp.RouteInformation:
			out = append(out, xopt{
				fixed: fmt.Sprintf("route %s/%d pref=%s", o.Prefix, o.PrefixLength, prefName(o.Preference)),
				v:     []int64{secs(o.RouteLifetime)},
			})
		case *ndp.RecursiveDNSServer:
			ss := make([]string, len(o.Servers))
			for i, s := range o.Servers {
				ss[i] = s.String()
			}
			out = append(out, xopt{fixed: "rdnss " + strings.Join(ss, ","), v: []int64{secs(o.Lifetime)}})
		case *ndp.DNSSearchList:
			out = append(out, xopt{fixed: "dnssl " + strings.Join(o.DomainNames, ","), v: []int64{secs(o.Lifetime)}})
		case *ndp.MTU:
			out = append(out, xopt{fixed: fmt.Sprintf("mtu %d", o.MTU)})
		case *ndp.LinkLayerAddress:
			dir := "source"
			if o.Direction != ndp.Source {
				dir = "target"
			}
			out = append(out, xopt{fixed: fmt.Sprintf("lla %s %s", dir, o.Addr)})
		case *ndp.CaptivePortal:
			out = append(out, xopt{fixed: fmt.Sprintf("captive-portal %q", o.URI)})
		case *ndp.PREF64:
			out = append(out, xopt{fixed: "pref64 " + o.Prefix.String(), v: []int64{secs(o.Lifetime)}})
		case *ndp.RawOption:
			out = append(out, xopt{fixed: fmt.Sprintf("raw type=%d %x", o.Type, o.Value)})
		default:
			out = append(out, xopt{fixed: fmt.Sprintf("unknown %T", o)})
		}
	}
	return out
}

// modelIn is everything the model may depend on for one RA build.
type modelIn struct {
	spec   *IfaceSpec
	fwd    bool
	mac    string
	addr   []string // address listings given to this build, in order
	routes []string // route listings given to this build, in order (one per loopback interface per wildcard stanza)
	nLoop  int
	epoch  int64 // fake ns of config.Parse
	t1, t2 int64 // fake ns interval of the build
	final  bool  // terminating RA: router lifetime forced to 0
	uninit bool  // the interface has never been initialised: no address/route source, no MAC
	// the build's listings were made by helper goroutines side by side and do
	// not all say the same: which stanza was given which cannot be told
	ambiguous bool
}

type modelOut struct {
	hop             int
	managed, other  bool
	reachMs, retrMs int64
	hdr             string
	lifetime        int64
	opts            []eopt
	fail            string   // non-empty: RA generation must fail
	unrep           []string // accepted values that cannot be represented (C03)
	notFwd          bool     // the not-forwarding misconfiguration must be reported
	usedAddr        int
}

// dsec parses a documented duration value. ok=false: the model has no opinion
// (unparsable; the parser must reject it).
func dparse(s *string, def time.Duration) (time.Duration, bool) {
	if s == nil {
		return def, true
	}
	switch *s {
	case "auto":
		return def, true
	case "infinite":
		return time.Duration(max32) * time.Second, true
	case "":
		return 0, true
	}
	d, err := time.ParseDuration(*s)
	if err != nil {
		return 0, false
	}
	return d, true
}

// field32 converts a duration to a 32-bit seconds field, noting values which
// are not representable.
func (m *modelOut) field(what string, d time.Duration, maxv int64) int64 {
	if d < 0 || secs(d) > maxv {
		m.unrep = append(m.unrep, fmt.Sprintf("%s=%s", what, d))
		return unrepMark
	}
	return secs(d)
}

type laddr struct {
	p       netip.Prefix
	flags   uint32
	forever bool
}

func parseAddrListing(s string) []laddr {
	var out []laddr
	for _, f := range strings.Fields(s) {
		parts := strings.Split(f, "/")
		if len(parts) < 3 {
			panic("sim: bad listing token " + f)
		}
		p := netip.MustParsePrefix(parts[0] + "/" + parts[1])
		fl, _ := strconv.ParseUint(parts[2], 16, 32)
		out = append(out, laddr{p: p, flags: uint32(fl), forever: len(parts) > 3 && parts[3] == "f"})
	}
	return out
}

func isULA(a netip.Addr) bool { return a.Is6() && a.As16()[0]&0xfe == 0xfc }

// wildcardPrefixes is C13's set: distinct /64 networks of IPv6 addresses that
// are not link-local, temporary or tentative, ascending.
func wildcardPrefixes(list []laddr) []netip.Prefix {
	seen := map[netip.Prefix]bool{}
	var out []netip.Prefix
	for _, a := range list {
		ip := a.p.Addr()
		if !ip.Is6() || ip.Is4In6() || a.p.Bits() != 64 || ip.IsLinkLocalUnicast() {
			continue
		}
		if a.flags&(unix.IFA_F_TEMPORARY|unix.IFA_F_TENTATIVE) != 0 {
			continue
		}
		p := a.p.Masked()
		if !seen[p] {
			seen[p] = true
			out = append(out, p)
		}
	}
	sort.Slice(out, func(i, j int) bool { return out[i].Addr().Less(out[j].Addr()) })
	return out
}

// bestRDNSS is C14's choice; ok=false when no address is eligible.
func bestRDNSS(list []laddr) (netip.Addr, bool) {
	type cand struct {
		ip  netip.Addr
		key [2]int
	}
	var cs []cand
	for _, a := range list {
		ip := a.p.Addr()
		if !ip.Is6() || ip.Is4In6() {
			continue
		}
		if a.flags&(unix.IFA_F_DEPRECATED|unix.IFA_F_TEMPORARY|unix.IFA_F_TENTATIVE) != 0 {
			continue
		}
		b := ip.As16()
		stable := a.forever || a.flags&(unix.IFA_F_MANAGETEMPADDR|unix.IFA_F_STABLE_PRIVACY) != 0 || (b[11] == 0xff && b[12] == 0xfe)
		k0 := 1
		if stable {
			k0 = 0
		}
		k1 := 3
		switch {
		case isULA(ip):
			k1 = 0
		case ip.IsGlobalUnicast():
			k1 = 1
		case ip.IsLinkLocalUnicast():
			k1 = 2
		}
		cs = append(cs, cand{ip: ip, key: [2]int{k0, k1}})
	}
	if len(cs) == 0 {
		return netip.Addr{}, false
	}
	sort.Slice(cs, func(i, j int) bool {
		if cs[i].key != cs[j].key {
			return cs[i].key[0] < cs[j].key[0] || (cs[i].key[0] == cs[j].key[0] && cs[i].key[1] < cs[j].key[1])
		}
		return cs[i].ip.Less(cs[j].ip)
	})
	return cs[0].ip, true
}

// wildcardRoutes is C15's set: IPv6 loopback routes that are not /128 and not
// contained in a different, shorter route, each once, ascending.
func wildcardRoutes(list []netip.Prefix) []netip.Prefix {
	seen := map[netip.Prefix]bool{}
	var uniq []netip.Prefix
	for _, p := range list {
		if !p.Addr().Is6() || p.Addr().Is4In6() || p.Bits() == 128 {
			continue
		}
		if !seen[p] {
			seen[p] = true
			uniq = append(uniq, p)
		}
	}
	var out []netip.Prefix
	for _, p := range uniq {
		covered := false
		for _, q := range list {
			if q != p && q.Bits() < p.Bits() && q.Contains(p.Addr()) {
				covered = true
				break
			}
		}
		if !covered {
			out = append(out, p)
		}
	}
	sort.Slice(out, func(i, j int) bool {
		if out[i].Addr() != out[j].Addr() {
			return out[i].Addr().Less(out[j].Addr())
		}
		return out[i].Bits() < out[j].Bits()
	})
	return out
}

// remaining returns the wire value interval of a deprecated lifetime.
func remaining(epoch int64, life time.Duration, t1, t2 int64) (lo, hi int64) {
	d := epoch + int64(life)
	f := func(t int64) int64 {
		r := d - t
		if r < 0 {
			r = 0
		}
		return r / int64(time.Second)
	}
	return f(t2), f(t1)
}

func maxIntervalOf(s *IfaceSpec) time.Duration {
	if s.MaxInterval == nil || *s.MaxInterval == "" {
		return 600 * time.Second
	}
	d, err := time.ParseDuration(*s.MaxInterval)
	if err != nil {
		return 600 * time.Second
	}
	return d
}

func prefOf(s *string) string {
	if s == nil || *s == "" {
		return "medium"
	}
	return *s
}

func boolOf(b *bool, def bool) bool {
	if b == nil {
		return def
	}
	return *b
}

// expectRA computes the RA the documentation says must be sent.
func expectRA(in modelIn) *modelOut {
	s := in.spec
	m := &modelOut{}
	maxI := maxIntervalOf(s)

	hop := 64
	if s.HopLimit != nil {
		hop = *s.HopLimit
	}
	reach, _ := dparse(s.ReachableTime, 0)
	retrans, _ := dparse(s.RetransmitTimer, 0)
	m.hdr = fmt.Sprintf("hop=%d M=%t O=%t pref=%s reach=%dms retrans=%dms home=false proxy=false",
		hop, boolOf(s.Managed, false), boolOf(s.OtherConfig, false), prefOf(s.Preference),
		reach.Milliseconds(), retrans.Milliseconds())

	m.hop, m.managed, m.other = hop, boolOf(s.Managed, false), boolOf(s.OtherConfig, false)
	m.reachMs, m.retrMs = reach.Milliseconds(), retrans.Milliseconds()

	life, _ := dparse(s.DefaultLifetime, 3*maxI)
	m.lifetime = m.field("default_lifetime", life, 0xffff)
	if life > 0 && !in.fwd && !in.final {
		m.notFwd = true
	}
	if !in.fwd || in.final {
		m.lifetime = 0
	}

	ai, ri := 0, 0
	// A listing that failed and was made again within the same build (the build
	// made more listings than its stanzas need) is a retry: what counts is what
	// the expansion was finally made from.
	needAddr, needRoute := 0, 0
	for _, p := range s.Prefixes {
		if p.Prefix == nil || *p.Prefix == "" || *p.Prefix == "::/64" {
			needAddr++
		}
	}
	for _, r := range s.RDNSS {
		auto := len(r.Servers) == 0
		for _, sv := range r.Servers {
			if sv == "::" {
				auto = true
			}
		}
		if auto {
			needAddr++
		}
	}
	for _, r := range s.Routes {
		if r.Prefix == nil || *r.Prefix == "" || *r.Prefix == "::/0" {
			needRoute += in.nLoop
		}
	}
	spareAddr, spareRoute := len(in.addr)-needAddr, len(in.routes)-needRoute
	nextAddr := func() ([]laddr, bool) {
		if in.uninit {
			m.fail = "interface never initialised: its addresses cannot be listed"
			return nil, false
		}
		for ai < len(in.addr) && strings.HasPrefix(in.addr[ai], "!") && spareAddr > 0 {
			ai++
			spareAddr--
		}
		if ai >= len(in.addr) {
			m.fail = "model: build made fewer address listings than the configuration needs"
			return nil, false
		}
		l := in.addr[ai]
		ai++
		if strings.HasPrefix(l, "!") {
			m.fail = "address listing failed"
			return nil, false
		}
		return parseAddrListing(l), true
	}

	for i, p := range s.Prefixes {
		valid, _ := dparse(p.Valid, 24*time.Hour)
		pref, _ := dparse(p.Preferred, 4*time.Hour)
		var nets []netip.Prefix
		if p.Prefix == nil || *p.Prefix == "" || *p.Prefix == "::/64" {
			l, ok := nextAddr()
			if !ok {
				return m
			}
			nets = wildcardPrefixes(l)
		} else {
			nets = []netip.Prefix{netip.MustParsePrefix(*p.Prefix)}
		}
		for _, n := range nets {
			e := eopt{kind: "prefix", pfx: n, fixed: fmt.Sprintf("prefix %s/%d L=%t A=%t", n.Addr(), n.Bits(), boolOf(p.OnLink, true), boolOf(p.Autonomous, true))}
			if p.Deprecated {
				vlo, vhi := remaining(in.epoch, valid, in.t1, in.t2)
				plo, phi := remaining(in.epoch, pref, in.t1, in.t2)
				e.lo, e.hi = []int64{vlo, plo}, []int64{vhi, phi}
				e.dep = true
			} else {
				v := m.field(fmt.Sprintf("prefix[%d].valid_lifetime", i), valid, max32)
				q := m.field(fmt.Sprintf("prefix[%d].preferred_lifetime", i), pref, max32)
				e.lo, e.hi = []int64{v, q}, []int64{v, q}
			}
			e.stanza = fmt.Sprintf("prefix#%d", i)
			m.opts = append(m.opts, e)
		}
	}

	for i, r := range s.Routes {
		lt, _ := dparse(r.Lifetime, 24*time.Hour)
		var nets []netip.Prefix
		if r.Prefix == nil || *r.Prefix == "" || *r.Prefix == "::/0" {
			var all []netip.Prefix
			if in.uninit {
				m.fail = "interface never initialised: loopback routes cannot be listed"
				return m
			}
			for k := 0; k < in.nLoop; k++ {
				if ri >= len(in.routes) {
					m.fail = "model: build made fewer route listings than the configuration needs"
					return m
				}
				for ri < len(in.routes)-1 && strings.HasPrefix(in.routes[ri], "!") && spareRoute > 0 {
					ri++
					spareRoute--
				}
				l := in.routes[ri]
				ri++
				if strings.HasPrefix(l, "!") {
					m.fail = "route listing failed"
					return m
				}
				for _, f := range strings.Fields(l) {
					all = append(all, netip.MustParsePrefix(f))
				}
			}
			nets = wildcardRoutes(all)
		} else {
			nets = []netip.Prefix{netip.MustParsePrefix(*r.Prefix)}
		}
		for _, n := range nets {
			e := eopt{kind: "route", pfx: n, rpref: prefOf(r.Preference), fixed: fmt.Sprintf("route %s/%d pref=%s", n.Addr(), n.Bits(), prefOf(r.Preference))}
			if r.Deprecated {
				lo, hi := remaining(in.epoch, lt, in.t1, in.t2)
				e.lo, e.hi = []int64{lo}, []int64{hi}
				e.dep = true
			} else {
				v := m.field(fmt.Sprintf("route[%d].lifetime", i), lt, max32)
				e.lo, e.hi = []int64{v}, []int64{v}
			}
			e.stanza = fmt.Sprintf("route#%d", i)
			m.opts = append(m.opts, e)
		}
	}

	for i, r := range s.RDNSS {
		lt, _ := dparse(r.Lifetime, 3*maxI)
		var statics []netip.Addr
		auto := len(r.Servers) == 0
		seen := map[netip.Addr]bool{}
		for _, sv := range r.Servers {
			a := netip.MustParseAddr(sv)
			if a.IsUnspecified() {
				auto = true
				continue
			}
			if !seen[a] {
				seen[a] = true
				statics = append(statics, a)
			}
		}
		sort.Slice(statics, func(i, j int) bool { return statics[i].Less(statics[j]) })
		var servers []string
		if auto {
			l, ok := nextAddr()
			if !ok {
				return m
			}
			best, ok := bestRDNSS(l)
			for !ok && spareAddr > 0 {
				// no address was eligible and the build listed the addresses
				// again (it made more listings than its stanzas need): what the
				// later listing says is what is "currently on the interface"
				spareAddr--
				if l, ok = nextAddr(); !ok {
					return m
				}
				best, ok = bestRDNSS(l)
			}
			if !ok {
				m.fail = "no eligible address for the RDNSS wildcard"
				return m
			}
			servers = append(servers, best.String())
		}
		var once []string
		for _, a := range statics {
			servers = append(servers, a.String())
			if auto && a.String() == servers[0] {
				once = append([]string(nil), servers[:len(servers)-1]...)
			} else if once != nil {
				once = append(once, a.String())
			}
		}
		v := m.field(fmt.Sprintf("rdnss[%d].lifetime", i), lt, max32)
		e := eopt{kind: "rdnss", list: servers, fixed: "rdnss " + strings.Join(servers, ","), lo: []int64{v}, hi: []int64{v}}
		if once != nil {
			e.altFixed = "rdnss " + strings.Join(once, ",")
		}
		m.opts = append(m.opts, e)
	}

	for i, d := range s.DNSSL {
		lt, _ := dparse(d.Lifetime, 3*maxI)
		v := m.field(fmt.Sprintf("dnssl[%d].lifetime", i), lt, max32)
		m.opts = append(m.opts, eopt{kind: "dnssl", list: d.DomainNames, fixed: "dnssl " + strings.Join(d.DomainNames, ","), lo: []int64{v}, hi: []int64{v}})
	}

	if s.MTU != nil && *s.MTU != 0 {
		m.opts = append(m.opts, eopt{kind: "mtu", num: int64(*s.MTU), fixed: fmt.Sprintf("mtu %d", *s.MTU)})
	}

	if boolOf(s.SourceLLA, true) && in.mac != "" {
		m.opts = append(m.opts, eopt{fixed: "lla source " + in.mac})
	}

	if s.CaptivePortal != nil && *s.CaptivePortal != "" {
		m.opts = append(m.opts, eopt{kind: "cp", str: *s.CaptivePortal, fixed: fmt.Sprintf("captive-portal %q", *s.CaptivePortal)})
	}

	for _, p := range s.PREF64 {
		pfx := "64:ff9b::/96"
		if p.Prefix != nil && *p.Prefix != "" {
			pfx = *p.Prefix
		}
		pp, err := netip.ParsePrefix(pfx)
		if err != nil {
			continue
		}
		switch {
		case !pp.Addr().Is6() || pp.Addr().Is4In6():
			m.unrep = append(m.unrep, "pref64.prefix="+pfx+" (not IPv6)")
		case pp.Bits() != 96 && pp.Bits() != 64 && pp.Bits() != 56 && pp.Bits() != 48 && pp.Bits() != 40 && pp.Bits() != 32:
			m.unrep = append(m.unrep, "pref64.prefix="+pfx+" (length is not 96, 64, 56, 48, 40 or 32)")
		}
		// 3 x MaxRtrAdvInterval rounded up to a multiple of 8 s, capped at 65528 s.
		l := 3 * maxI
		const eight = 8 * time.Second
		if r := l % eight; r != 0 {
			l += eight - r
		}
		if l > 65528*time.Second {
			l = 65528 * time.Second
		}
		m.opts = append(m.opts, eopt{fixed: "pref64 " + pp.Masked().String(), lo: []int64{secs(l)}, hi: []int64{secs(l)}})
	}

	m.usedAddr = ai
	return m
}

// diffRA compares a decoded RA with the model. It returns "" when they agree.
func diffRA(ra *ndp.RouterAdvertisement, m *modelOut) string {
	hdr, life := wireHeader(ra)
	if hdr != m.hdr {
		return fmt.Sprintf("header: wire %q, expected %q", hdr, m.hdr)
	}
	if life != m.lifetime {
		return fmt.Sprintf("router lifetime: wire %ds, expected %ds", life, m.lifetime)
	}
	got := wireOpts(ra)
	for i := 0; i < len(got) || i < len(m.opts); i++ {
		switch {
		case i >= len(got):
			return fmt.Sprintf("option %d missing: expected %s", i, m.opts[i])
		case i >= len(m.opts):
			return fmt.Sprintf("option %d unexpected: wire %s", i, got[i])
		case !m.opts[i].matches(got[i]):
			return fmt.Sprintf("option %d: wire %s, expected %s", i, got[i], m.opts[i])
		}
	}
	return ""
}
