package corerad

import (
	"sort"
	"strconv"
	"strings"
)

// A sample is one line of the Prometheus text exposition format.
type sample struct {
	name   string
	labels map[string]string
	value  float64
}

func (s sample) key() string {
	ks := make([]string, 0, len(s.labels))
	for k := range s.labels {
		ks = append(ks, k)
	}
	sort.Strings(ks)
	p := make([]string, len(ks))
	for i, k := range ks {
		p[i] = k + "=" + s.labels[k]
	}
	return s.name + "{" + strings.Join(p, ",") + "}"
}

// parseProm parses the text exposition format (enough of it: no timestamps,
// no exemplars — promhttp does not emit them here).
func parseProm(body string) []sample {
	var out []sample
	for _, line := range strings.Split(body, "\n") {
		if line == "" || line[0] == '#' {
			continue
		}
		s := sample{labels: map[string]string{}}
		i := strings.IndexAny(line, "{ ")
		if i < 0 {
			continue
		}
		s.name = line[:i]
		rest := line[i:]
		if rest[0] == '{' {
			rest = rest[1:]
			for len(rest) > 0 && rest[0] != '}' {
				eq := strings.IndexByte(rest, '=')
				k := rest[:eq]
				rest = rest[eq+2:] // skip ="
				var v strings.Builder
				for j := 0; j < len(rest); j++ {
					c := rest[j]
					if c == '\\' && j+1 < len(rest) {
						j++
						switch rest[j] {
						case 'n':
							v.WriteByte('\n')
						default:
							v.WriteByte(rest[j])
						}
						continue
					}
					if c == '"' {
						rest = rest[j+1:]
						break
					}
					v.WriteByte(c)
				}
				s.labels[k] = v.String()
				rest = strings.TrimPrefix(rest, ",")
			}
			rest = strings.TrimPrefix(rest, "}")
		}
		f, err := strconv.ParseFloat(strings.TrimSpace(rest), 64)
		if err != nil {
			continue
		}
		s.value = f
		out = append(out, s)
	}
	return out
}
