package corerad

// C10 (part B) — failures injected into a running advertiser / monitor tear
// the interface task down together and recover per policy; never half-alive.
// (Part A, the dial policy itself, is decided in package system.)

import (
	"fmt"
	"strings"
	"time"

	"github.com/mdlayher/corerad/internal/verifsim"
	"github.com/mdlayher/ndp"
)

func c10Gen(rng *verifsim.RNG, idx int, tier string) *Plan {
	monitor := rng.Bool(0.3)
	var p *Plan
	if monitor {
		p = oneMonitor(rng)
	} else {
		p = oneAdvertiser(rng)
		s := &p.Nodes[0].Config.Interfaces[0]
		s.MaxInterval = sp([]string{"4s", "6s", "600s"}[rng.Intn(3)])
		s.Verbose = rng.Bool(0.2)
	}
	f := int64(rng.Dur(500*time.Millisecond, 12*time.Second)) + jitter(rng)
	if rng.Bool(0.1) {
		f = 1 // during / right after initialisation
	}
	p.Opt = map[string]int64{"fault_at": f}

	// valid traffic before the fault
	for i, k := 0, rng.Range(0, 5); i < k; i++ {
		p.Actions = append(p.Actions, rsAction(int64(rng.Dur(0, time.Duration(f)))+jitter(rng), hostAddr(rng.Intn(3))))
	}
	// pending work at the fault instant
	if rng.Bool(0.5) {
		p.Actions = append(p.Actions, rsAction(f-int64(rng.Dur(0, 400*time.Millisecond)), hostAddr(1)))
	}

	kinds := []string{"read-recoverable", "read-permission", "read-opaque", "timeouts", "write", "link", "fwd", "handler", "write-initial", "write-final", "write-inflight+link", "recreate"}
	if monitor {
		kinds = []string{"read-recoverable", "read-permission", "read-opaque", "timeouts", "link"}
	}
	kind := kinds[rng.Intn(len(kinds))]
	p.Class = kind
	switch kind {
	case "read-recoverable":
		p.Faults = append(p.Faults, Fault{Seam: "read", From: f, Err: []string{"ENETDOWN", "ENOBUFS", "EINVAL", "EINTR", "EMFILE"}[rng.Intn(5)]})
	case "read-permission":
		p.Faults = append(p.Faults, Fault{Seam: "read", From: f, Err: []string{"EPERM", "EACCES"}[rng.Intn(2)]})
	case "read-opaque":
		p.Faults = append(p.Faults, Fault{Seam: "read", From: f, Err: "opaque"})
	case "timeouts":
		k := rng.Range(1, 7)
		p.Opt["timeouts"] = int64(k)
		p.Faults = append(p.Faults, Fault{Seam: "read", From: f, Err: "timeout", Count: k})
	case "write":
		p.Faults = append(p.Faults, Fault{Seam: "write", Key: []string{"uc", "mc", ""}[rng.Intn(3)], From: f, Err: []string{"ENOBUFS", "ENETDOWN", "EPERM", "opaque"}[rng.Intn(4)]})
		p.Actions = append(p.Actions, rsAction(f+1000, hostAddr(0)), rsAction(f+2000, "::"))
	case "write-initial":
		p.Faults = append(p.Faults, Fault{Seam: "write", Key: "mc", N: 1, Err: []string{"ENOBUFS", "ENETDOWN", "EPERM", "opaque"}[rng.Intn(4)]})
		p.Opt["fault_at"] = 0
	case "write-final":
		p.Faults = append(p.Faults, Fault{Seam: "write", Key: "mc", From: 0, Err: "ENOBUFS"})
		p.Faults[0].From = 1 << 62 // armed by the horizon: see below
	case "write-inflight+link":
		// a slow transmission is in flight when a link event tears the connection
		// down for another reason, and then fails: nobody is left to hear of it,
		// and the task must still be re-established
		lat := int64(rng.Dur(100*time.Millisecond, 1500*time.Millisecond))
		p.Faults = append(p.Faults, Fault{Seam: "write", Key: []string{"uc", "mc", ""}[rng.Intn(3)], From: f, Count: rng.Range(1, 2), Lat: lat,
			Err: []string{"ENOBUFS", "ENETDOWN", "EINVAL"}[rng.Intn(3)]})
		p.Actions = append(p.Actions, rsAction(f+1000, hostAddr(0)), rsAction(f+2000, "::"),
			Action{At: f + 600*nsMs + lat/2, Kind: "link", If: "eth0", Oper: "down"})
	case "recreate":
		// the interface is deleted and re-created under its name (new index, new
		// addresses) and the link event follows: a recoverable cause, whatever
		// the configuration reads from the interface (automatic prefix, :: RDNSS)
		s := &p.Nodes[0].Config.Interfaces[0]
		s.Prefixes = append(s.Prefixes, PrefixSpec{Prefix: sp("::/64")})
		if rng.Bool(0.5) {
			s.RDNSS = append(s.RDNSS, RDNSSSpec{Servers: []string{"::"}})
		}
		iw := &p.Nodes[0].Ifaces[0]
		iw.Addrs = pickAddrs(rng, iw.LL, 5)
		a := Action{At: f - 50, Kind: "reindex", If: "eth0", N: 100 + rng.Intn(800)}
		if rng.Bool(0.5) {
			a.Addrs = []AddrW{{CIDR: "2001:db8:ffff::1/64"}, {CIDR: "fd00:ffff::1/64", Forever: true}}
		}
		p.Actions = append(p.Actions, a, Action{At: f, Kind: "link", If: "eth0", Oper: "down"})
	case "link":
		// (sometimes several messages about the interface arrive in one batch)
		l := Action{At: f, Kind: "link", If: "eth0", Oper: []string{"down", "down", "up", "dormant", "down+up", "down+dormant", "up+down+dormant", "up+dormant"}[rng.Intn(8)]}
		if !monitor && rng.Bool(0.35) {
			// ... in the very instant in which more solicitations than the request
			// queue holds are sitting in the socket (either may be noticed first)
			p.Class = "link+burst"
			biasQueueFull(rng, p)
			b := rsAction(f, []string{hostAddr(3), "::"}[rng.Intn(2)])
			b.N = rng.Range(17, 40)
			if rng.Bool(0.5) {
				b.Then = &Action{Kind: "link", If: "eth0", Oper: l.Oper}
				p.Actions = append(p.Actions, b)
			} else {
				l.Then = &b
				p.Actions = append(p.Actions, l)
			}
		} else {
			p.Actions = append(p.Actions, l)
		}
	case "fwd":
		p.Faults = append(p.Faults, Fault{Seam: "fwd", From: f, Err: []string{"fs.EPERM", "fs.ENOENT", "fs.EIO"}[rng.Intn(3)]})
		p.Actions = append(p.Actions, rsAction(f+1000, hostAddr(0)))
	case "handler":
		// the consistency check of a peer RA fails to build our own RA
		p.Faults = append(p.Faults, Fault{Seam: "fwd", From: f, Err: "fs.EIO"})
		p.Actions = append(p.Actions, Action{At: f + 1000, Kind: "ra", If: "eth0", Src: "fe80::beef", RA: &RASpec{Hop: 64, Lifetime: 1800}})
	}
	// sometimes the interface is not ready when it is re-dialled
	if rng.Bool(0.3) && kind != "write-final" {
		n := rng.Range(1, 6)
		if rng.Bool(0.1) {
			n = 55 // beyond the 50 attempts
		}
		p.Opt["redial_failures"] = int64(n)
		p.Faults = append(p.Faults, Fault{Seam: "dial", N: 0, From: f, Count: n, Err: []string{"linknotready", "ENETDOWN"}[rng.Intn(2)]})
	}
	// valid solicitations well after the fault: must be served again if the task lives
	after := f + int64(rng.Dur(1500*time.Millisecond, 4*time.Second))
	if v, ok := p.Opt["redial_failures"]; ok {
		after += v * 3 * nsSec
	}
	p.Actions = append(p.Actions, rsAction(after+jitter(rng), hostAddr(2)), rsAction(after+900*nsMs+jitter(rng), hostAddr(0)))
	p.Horizon = after + 3*nsSec
	if kind == "write-final" {
		p.Faults[0].From = p.Horizon - 1
		p.Stop = "SIGTERM"
	}
	return p
}

func errClass(name string) string {
	switch name {
	case "EPERM", "EACCES":
		return "permission"
	case "opaque":
		return "opaque"
	case "timeout":
		return "timeout"
	}
	return "recoverable"
}

func c10Oracle(info *runInfo, res *verifsim.Result) {
	if info.rejected[0] != "" {
		res.Skipped = "config_rejected"
		return
	}
	h := analyse(info.ev)
	spec := &info.plan.Nodes[0].Config.Interfaces[0]
	ifn, monitor := spec.Name, spec.Monitor
	kind := info.plan.Class
	stopT, stopSeq, _ := stopInstant(h, 0)

	var exit *verifsim.Event
	for i := range h.ev {
		e := &h.ev[i]
		if e.K == "task.exit" && taskIface(e.S) == ifn {
			exit = e
			break
		}
	}

	// together (1): once a generation is torn down nothing enters its connection again.
	for _, g := range h.gens {
		if g.ifn != ifn || g.endSeq == 0 {
			continue
		}
		for i := range h.ev {
			e := &h.ev[i]
			if e.Seq <= g.endSeq || e.If != ifn || e.Gen != g.gen {
				continue
			}
			switch e.K {
			case "write.enter", "read.enter", "deadline":
				res.Violate("C10.together", "straggler:"+e.K, "%s: %s on the connection of generation %d at %s, after its teardown began at %s", ifn, e.K, g.gen, ms(e.T), ms(g.tEnd))
			}
		}
	}

	// The fault that fired and what must follow it.
	var fault *verifsim.Event
	for i := range h.ev {
		e := &h.ev[i]
		if (e.K == "read.exit" || e.K == "write.exit" || e.K == "fwd.exit") && e.Err != "" && e.Err != "deadline" && !strings.HasPrefix(e.Err, "marshal") && e.If == ifn {
			if stopSeq != 0 && e.Seq > stopSeq {
				continue
			}
			fault = e
			break
		}
		if e.K == "act.link" && isDown(e.S) && e.Err == "" && e.If == ifn {
			fault = e
			break
		}
	}
	if fault == nil {
		// e.g. a link event other than "down", which must change nothing
		if kind == "link" && len(h.gens) > 1 {
			res.Violate("C10.classify", "link-not-down", "%s: re-initialised although the only link event was not a link-down", ifn)
		}
		c10Alive(info, res, h, ifn, monitor, stopT, stopSeq, 0)
		return
	}
	res.Nontrivial = true
	res.Probe("fault_" + kind)

	// what happened next: a new dial, or the task ended
	var redial *verifsim.Event
	for i := range h.ev {
		e := &h.ev[i]
		if e.Seq > fault.Seq && e.K == "dial.enter" && e.If == ifn {
			redial = e
			break
		}
	}
	ended := exit != nil && exit.Seq > fault.Seq && (stopSeq == 0 || exit.Seq < stopSeq)

	// timeouts: up to 4 in a row are survived; 5 count as an error.
	if fault.Err == "timeout" {
		k := int(info.plan.Opt["timeouts"])
		var gaps []int64
		var prev *verifsim.Event
		n := 0
		for i := range h.ev {
			e := &h.ev[i]
			if e.K == "read.exit" && e.Err == "timeout" && e.If == ifn {
				n++
				prev = e
				continue
			}
			if prev != nil && e.K == "read.enter" && e.If == ifn && e.Gen == prev.Gen {
				gaps = append(gaps, e.T-prev.T)
				prev = nil
			}
		}
		for i := 1; i < len(gaps); i++ {
			if gaps[i] <= gaps[i-1] {
				res.Violate("C10.timeouts", "backoff", "%s: back-off between receive retries does not increase: %v", ifn, gaps)
			}
		}
		if k <= 4 && (redial != nil && redial.T < fault.T+2*nsSec || ended) {
			res.Violate("C10.timeouts", "not-survived", "%s: %d consecutive receive timeouts tore the task down (redial=%v ended=%v)", ifn, k, redial != nil, ended)
		}
		if k >= 5 && n >= 5 && !ended && redial == nil {
			res.Violate("C10.timeouts", "not-counted", "%s: %d consecutive receive timeouts were not treated as an error", ifn, n)
		}
		if k <= 4 {
			c10Alive(info, res, h, ifn, monitor, stopT, stopSeq, fault.T)
		}
		return
	}

	// Transmit errors on the final RA are only logged.
	if kind == "write-final" {
		if exit == nil || exit.Err != "" {
			res.Violate("C10.classify", "final-write", "%s: a failed final RA must not turn shutdown into an error (exit=%v)", ifn, exit)
		}
		return
	}

	// together (2): promptly either re-dial or end.
	limit := fault.T + nsSec + lastHeld(h.ev, fault.Seq)
	var next int64 = -1
	if redial != nil {
		next = redial.T
	}
	if exit != nil && exit.Seq > fault.Seq && (next < 0 || exit.T < next) {
		next = exit.T
	}
	if next < 0 || next > limit {
		res.Violate("C10.together", "not-torn-down", "%s: %s at %s (%s) was followed neither by a re-dial nor by the task ending within 1s (next=%s)", ifn, fault.K, ms(fault.T), fault.Err, ms(next))
		// half-alive: still sending while deaf?
		return
	}

	// classification
	cls := "recoverable"
	if fault.K != "act.link" {
		cls = errClass(fault.Err)
	}
	if fault.K == "fwd.exit" {
		cls = "" // a failing sysctl read: the statement does not classify it
	}
	if (kind == "link" || kind == "recreate") && ended && info.plan.Opt["redial_failures"] < 50 {
		// nothing was made to fail in this run: a link event (with or without the
		// interface having been re-created) is all that happened
		res.Violate("C10.classify", "recoverable-fatal:"+kind, "%s: the task ended at %s (%s) although the only thing that happened was a recoverable link event at %s", ifn, ms(exit.T), exitErr(exit), ms(fault.T))
	}
	switch cls {
	case "recoverable":
		if redial == nil || (ended && exit.Seq < redial.Seq) {
			res.Violate("C10.classify", "recoverable-fatal:"+kind, "%s: recoverable failure (%s %s at %s) was not followed by re-initialisation; task ended with: %v", ifn, fault.K, fault.Err, ms(fault.T), exitErr(exit))
		}
	case "permission", "opaque":
		if redial != nil {
			res.Violate("C10.classify", "fatal-recovered:"+cls, "%s: non-recoverable failure (%s %s at %s) was followed by a re-dial", ifn, fault.K, fault.Err, ms(fault.T))
		} else if exit == nil || exit.Err == "" {
			res.Violate("C10.classify", "fatal-unreported:"+cls, "%s: non-recoverable failure (%s %s at %s) was not reported by the task", ifn, fault.K, fault.Err, ms(fault.T))
		}
	}

	// back-off of the recovery
	if redial != nil {
		var waits []int64
		var prevExit int64 = -1
		attempts := 0
		for i := range h.ev {
			e := &h.ev[i]
			if e.Seq < redial.Seq || e.If != ifn {
				continue
			}
			if e.K == "dial.enter" {
				attempts++
				if prevExit >= 0 {
					waits = append(waits, e.T-prevExit)
				}
			}
			if e.K == "dial.exit" {
				if e.Err == "" {
					break
				}
				prevExit = e.T
			}
		}
		for i, w := range waits {
			want := int64(i+1) * 250 * nsMs
			if want > 3*nsSec {
				want = 3 * nsSec
			}
			if w != want {
				res.Violate("C10.backoff", "wait", "%s: wait #%d between dial attempts is %s, want %s (all waits: %v)", ifn, i+1, time.Duration(w), time.Duration(want), waits)
				break
			}
		}
		if attempts > 50 {
			res.Violate("C10.backoff", "attempts", "%s: %d dial attempts in one recovery (max 50)", ifn, attempts)
		}
		if attempts >= 50 {
			res.Probe("fifty_attempts")
			if exit == nil || exit.Err == "" {
				res.Violate("C10.exhaust", "exhaust", "%s: 50 failed dial attempts did not end in an error", ifn)
			}
		}
		if attempts > 1 {
			res.Probe("redial_retried")
		}
	}

	// never half-alive afterwards
	if cls == "recoverable" {
		lastDial := fault.T
		for _, g := range h.gens {
			if g.ifn == ifn && g.t0 > lastDial {
				lastDial = g.t0
			}
		}
		c10Alive(info, res, h, ifn, monitor, stopT, stopSeq, lastDial)
	}
}

func exitErr(e *verifsim.Event) string {
	if e == nil {
		return "<still running>"
	}
	return e.Err
}

// lastHeld returns how long calls entered after seq were kept parked by the plan (0 here: plans of this property do not hold).
// lastHeld: how long after event seq the last call that was already in progress
// then (a slow transmission, a slow receive or sysctl read) took to return: the
// teardown of a connection waits for what is in flight on it.
func lastHeld(ev []verifsim.Event, seq int) int64 {
	var t0, d int64
	for i := range ev {
		if ev[i].Seq == seq {
			t0 = ev[i].T
		}
	}
	for i := range ev {
		e := &ev[i]
		if e.Seq > seq && e.Ref != 0 && e.Ref < seq && strings.HasSuffix(e.K, ".exit") && e.T-t0 > d {
			d = e.T - t0
		}
	}
	return d
}

// c10Alive: after the last fault the live generation must both listen and
// answer. Evaluated for messages delivered at least 1 s after `since`.
func c10Alive(info *runInfo, res *verifsim.Result, h *history, ifn string, monitor bool, stopT int64, stopSeq int, since int64) {
	var live *generation
	for _, g := range h.gens {
		if g.ifn == ifn && (g.endSeq == 0 || (stopSeq != 0 && g.endSeq > stopSeq)) {
			live = g
		}
	}
	if live == nil {
		return
	}
	delivered := 0
	for i := range h.ev {
		e := &h.ev[i]
		if e.K == "act.rs" && e.If == ifn && e.Err == "" && e.Gen == live.gen && e.T >= since+nsSec && (stopSeq == 0 || e.Seq < stopSeq) {
			delivered++
		}
	}
	read, answered := 0, 0
	need := map[string]int{}
	for _, r := range live.rxs {
		if r.t < since+nsSec || (stopSeq != 0 && r.seq > stopSeq) {
			continue
		}
		if _, ok := r.msg.(*ndp.RouterSolicitation); ok && r.hop == 255 {
			read++
			if !r.src.IsUnspecified() && (stopT == 0 || r.t+maxRADelayNs < stopT) {
				need[r.src.String()]++
			}
		}
	}
	if read < delivered {
		res.Violate("C10.halfalive", "deaf", "%s: generation %d is live but read only %d of %d solicitations delivered after %s: not listening", ifn, live.gen, read, delivered, ms(since+nsSec))
		return
	}
	if monitor {
		return
	}
	for _, w := range live.writes {
		if !w.mc() && w.t >= since+nsSec {
			need[w.dst.String()]--
			answered++
		}
	}
	for dst, n := range need {
		if n > 0 {
			res.Violate("C10.halfalive", "mute", "%s: generation %d is listening but %d solicitation(s) from %s delivered after %s went unanswered", ifn, live.gen, n, dst, ms(since+nsSec))
		}
	}
	if answered > 0 {
		res.Probe("served_after_fault")
	}
	_ = fmt.Sprint
}

func init() {
	register("C10", nil, c10Gen, c10Oracle)
}
