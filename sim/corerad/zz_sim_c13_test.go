package corerad

// C13, C14, C15 — wildcard expansion of ::/64 prefixes, the :: RDNSS server and
// ::/0 routes from what the operating system lists, while the listing changes,
// is permuted, repeats itself or fails under a running daemon.

import (
	"fmt"
	"strings"
	"time"

	"github.com/mdlayher/corerad/internal/verifsim"
)

// subsetPerm unranks idx into (subset of size<=maxK of n elements, one of its
// permutations). ok=false past the end.
func subsetPerm(idx, n, maxK int) ([]int, bool) {
	fact := []int{1, 1, 2, 6, 24, 120}
	for k := 0; k <= maxK; k++ {
		c := binom(n, k) * fact[k]
		if idx < c {
			si, pi := idx/fact[k], idx%fact[k]
			// unrank subset si of size k (lexicographic)
			sub := make([]int, 0, k)
			x := 0
			for len(sub) < k {
				c2 := binom(n-x-1, k-len(sub)-1)
				if si < c2 {
					sub = append(sub, x)
				} else {
					si -= c2
				}
				x++
			}
			// unrank permutation pi (Lehmer)
			out := make([]int, 0, k)
			rest := append([]int(nil), sub...)
			for i := k; i > 0; i-- {
				f := fact[i-1]
				j := pi / f
				pi %= f
				out = append(out, rest[j])
				rest = append(rest[:j], rest[j+1:]...)
			}
			return out, true
		}
		idx -= c
	}
	return nil, false
}

func binom(n, k int) int {
	if k < 0 || k > n {
		return 0
	}
	r := 1
	for i := 1; i <= k; i++ {
		r = r * (n - k + i) / i
	}
	return r
}

func subsetPermTotal(n, maxK int) int {
	fact := []int{1, 1, 2, 6, 24, 120}
	t := 0
	for k := 0; k <= maxK; k++ {
		t += binom(n, k) * fact[k]
	}
	return t
}

func wildK(tier string) int {
	if tier == "thorough" {
		return 4
	}
	return 2
}

func wildEnum(prop string) func(string) int {
	return func(tier string) int {
		if prop == "C15" {
			return subsetPermTotal(len(routePool), wildK(tier))
		}
		return subsetPermTotal(len(addrPool), wildK(tier))
	}
}

// c15ClockPlan: a deprecated ::/0 stanza expanded while the clock moves on
// every reading (the C16 "clock" scenario): whatever it expands to in one RA
// carries one lifetime.
func c15ClockPlan(rng *verifsim.RNG) *Plan {
	p := oneAdvertiser(rng)
	s := &p.Nodes[0].Config.Interfaces[0]
	v := time.Duration(rng.Range(5, 4000)) * time.Second
	s.Routes = []RouteSpec{{Prefix: sp("::/0"), Deprecated: true, Preference: triPref(rng), Lifetime: sp(v.String())}}
	p.Loop = []RouteW{{Prefix: "2001:db8:100::/48"}, {Prefix: "2001:db8:200::/56"}, {Prefix: "fd00:aa::/32"}}[:rng.Range(2, 3)]
	p.Scenario, p.Class = "clock", "clock-per-call"
	p.Opt = map[string]int64{"per_call": 1}
	t := int64(rng.Dur(0, v))
	for i, n := 0, rng.Range(6, 30); i < n; i++ {
		p.Clock = append(p.Clock, t)
		t += int64(rng.Dur(200*time.Millisecond, 900*time.Millisecond))
	}
	return p
}

func wildGen(prop string) func(rng *verifsim.RNG, idx int, tier string) *Plan {
	return func(rng *verifsim.RNG, idx int, tier string) *Plan {
		if prop == "C15" && idx >= wildEnum(prop)(tier) && rng.Bool(0.05) {
			return c15ClockPlan(rng)
		}
		p := oneAdvertiser(rng)
		n := &p.Nodes[0]
		s := &n.Config.Interfaces[0]
		iw := &n.Ifaces[0]
		p.Class = "random"

		// Configuration: the three wildcards plus some static company.
		s.MaxInterval = sp("4s")
		s.Prefixes = []PrefixSpec{{Prefix: []*string{nil, sp(""), sp("::/64")}[rng.Intn(3)], OnLink: triBool(rng), Autonomous: triBool(rng)}}
		s.Prefixes[0].Valid, s.Prefixes[0].Preferred = genLifetimes(rng, false, false)
		if rng.Bool(0.3) {
			s.Prefixes = append(s.Prefixes, PrefixSpec{Prefix: sp("2001:db8:7777::/64")})
			if rng.Bool(0.5) {
				s.Prefixes[0], s.Prefixes[1] = s.Prefixes[1], s.Prefixes[0]
			}
		}
		s.Routes = []RouteSpec{{Prefix: []*string{nil, sp(""), sp("::/0")}[rng.Intn(3)], Preference: triPref(rng), Lifetime: optLifetime(rng, true, false, false)}}
		if rng.Bool(0.3) {
			s.Routes = append(s.Routes, RouteSpec{Prefix: sp("2001:db8:8888::/48")})
		}
		if rng.Bool(0.15) {
			s.Routes = append(s.Routes, RouteSpec{Prefix: sp("::/0"), Preference: sp("high")})
		}
		rd := RDNSSSpec{Lifetime: optLifetime(rng, true, true, false)}
		switch rng.Intn(3) {
		case 0:
		case 1:
			rd.Servers = []string{"::"}
		default:
			rd.Servers = []string{"2001:db8:53::2", "::", "2001:db8:53::1"}
		}
		s.RDNSS = []RDNSSSpec{rd}
		if prop == "C14" && rng.Bool(0.2) {
			// one of the interface's own addresses is configured as a static
			// server too (it may well be the one the wildcard picks): build after
			// build the option is the pick followed by the configured servers
			rd.Servers = []string{"::", "2001:db8:53::1", "2001:db8:a::2", "fd00:1::2", "fd00:1::1", "2001:db8:a::1", "fd00:3::211:22ff:fe33:4455", "2001:db8:0:1::1"}
			s.RDNSS = []RDNSSSpec{rd}
		}
		if prop == "C14" && rng.Bool(0.2) {
			// also a purely static stanza next to the wildcard one
			s.RDNSS = append(s.RDNSS, RDNSSSpec{Servers: []string{"2001:db8:53::9", "2001:db8:53::3"}})
		}
		n.Config.Shuffle = rng.U64() | 1

		enumAddr := prop != "C15"
		if e := wildEnum(prop)(tier); idx < e {
			p.Class = "enumerated"
			if enumAddr {
				sel, _ := subsetPerm(idx, len(addrPool), wildK(tier))
				var as []AddrW
				for _, i := range sel {
					as = append(as, addrPool[i])
				}
				// the interface's own link-local address sits at a plan-index-chosen position
				ll := AddrW{CIDR: iw.LL + "/64"}
				pos := idx % (len(as) + 1)
				as = append(as[:pos], append([]AddrW{ll}, as[pos:]...)...)
				iw.Addrs = as
				p.Loop = pickRoutes(rng, 3, false)
			} else {
				sel, _ := subsetPerm(idx, len(routePool), wildK(tier))
				for _, i := range sel {
					p.Loop = append(p.Loop, routePool[i])
				}
				p.LoopIdx = []int{1, 90}
				iw.Addrs = pickAddrs(rng, iw.LL, 3)
			}
			p.Actions = append(p.Actions, rsAction(500*nsMs+jitter(rng), hostAddr(0)))
			p.Horizon = 2 * nsSec
			return p
		}

		// Seeded population: larger lists, tables changing under the running
		// daemon, listings permuted / duplicated / failing.
		if rng.Bool(0.2) {
			// the wildcard stanzas are deprecated and run out during the run: what
			// they expand to does not depend on how much time is left
			p.Class = "random+deprecated"
			v := time.Duration(rng.Range(1, 20)) * time.Second
			q := time.Duration(1 + rng.Int63n(int64(v)))
			s.Prefixes[0].Deprecated = true
			s.Prefixes[0].Valid, s.Prefixes[0].Preferred = sp(v.String()), sp(q.String())
			s.Routes[0].Deprecated = true
			s.Routes[0].Lifetime = sp((time.Duration(rng.Range(1, 20)) * time.Second).String())
		}
		iw.Addrs = pickAddrs(rng, iw.LL, 10)
		if rng.Bool(0.1) {
			// nothing eligible for the RDNSS wildcard
			iw.Addrs = []AddrW{{CIDR: "2001:db8:b::1/64", Flags: 0x01}, {CIDR: "2001:db8:c::1/64", Flags: 0x40}}
		}
		p.Loop = pickRoutes(rng, 8, rng.Bool(0.15))
		if rng.Bool(0.4) {
			p.LoopIdx = []int{1, 90}
		}
		horizon := rng.Dur(3*time.Second, 40*time.Second)
		p.Horizon = int64(horizon)
		k := rng.Range(1, 8)
		for i := 0; i < k; i++ {
			at := int64(rng.Dur(0, horizon)) + jitter(rng)
			switch rng.Intn(3) {
			case 0:
				p.Actions = append(p.Actions, Action{At: at, Kind: "addrs", If: iw.Name, Addrs: pickAddrs(rng, iw.LL, 10)})
			case 1:
				p.Actions = append(p.Actions, Action{At: at, Kind: "routes", Routes: pickRoutes(rng, 8, rng.Bool(0.15))})
			default:
				// DAD completes / an address is deprecated: re-flag in place
				as := pickAddrs(rng, iw.LL, 10)
				for j := range as {
					if rng.Bool(0.3) {
						as[j].Flags ^= []uint32{0x01, 0x20, 0x40, 0x80, 0x100, 0x800}[rng.Intn(6)]
					}
				}
				p.Actions = append(p.Actions, Action{At: at, Kind: "addrs", If: iw.Name, Addrs: as})
			}
			p.Actions = append(p.Actions, rsAction(at+int64(rng.Dur(time.Millisecond, time.Second)), hostAddr(rng.Intn(3))))
		}
		if rng.Bool(0.08) {
			// the interface is not there when the daemon starts: whoever asks for
			// its RA meanwhile (debug API, metrics) cannot be given an expansion
			up := int64(rng.Dur(500*time.Millisecond, horizon/2))
			iw.Down = true
			n.Config.Debug = &DebugSpec{Address: "127.0.0.1:9430", Prometheus: true}
			p.Actions = append(p.Actions, Action{At: up, Kind: "ifup", If: iw.Name})
			for i, k := 0, rng.Range(1, 3); i < k; i++ {
				p.Actions = append(p.Actions, Action{At: int64(rng.Dur(0, time.Duration(up))) + jitter(rng), Kind: "http", Path: []string{"/metrics", "/_/api/interfaces"}[rng.Intn(2)]})
			}
			// only this property's wildcard: the others would fail the RA first
			if prop != "C13" {
				s.Prefixes = []PrefixSpec{{Prefix: sp("2001:db8:7777::/64")}}
			}
			if prop != "C15" {
				s.Routes = []RouteSpec{{Prefix: sp("2001:db8:8888::/48")}}
			}
			if prop != "C14" {
				s.RDNSS = []RDNSSSpec{{Servers: []string{"2001:db8:53::9"}}}
			}
			p.Class += "+asked-before-up"
			return p
		}
		if prop != "C15" && rng.Bool(0.15) {
			// Two interfaces listing their addresses at overlapping times: eth0's
			// dump is stuck in the kernel while eth1 builds an RA of its own. Each
			// expansion is made from its own interface's listing.
			secondInterface(rng, p)
			n = &p.Nodes[0]
			iw = &n.Ifaces[0]
			n.Ifaces[1].Addrs = pickAddrs(rng, n.Ifaces[1].LL, 10)
			t0 := int64(rng.Dur(time.Second, horizon))
			p.Faults = append(p.Faults, Fault{Seam: "rtnl.addr", If: "eth0", From: t0, Count: 1, Hold: "h2if"})
			a0, a1 := rsAction(t0+1000, hostAddr(0)), rsAction(t0+600*nsMs, hostAddr(1))
			a1.If = "eth1"
			p.Actions = append(p.Actions, a0, a1, Action{At: t0 + 1300*nsMs, Kind: "release", Hold: "h2if"})
			if p.Horizon < t0+2*nsSec {
				p.Horizon = t0 + 2*nsSec
			}
			return p
		}
		maybeReinit(rng, p, iw.Name, 500*nsMs, int64(horizon), 0.2)
		if rng.Bool(0.2) {
			// The same stanza objects are expanded by the advertiser, the metrics
			// collector and the debug API: park an advertiser build inside its
			// listing and let a complete expansion by a request overtake it.
			p.Class = "overlapping-expansions"
			n.Config.Debug = &DebugSpec{Address: "127.0.0.1:9430", Prometheus: true}
			t0 := int64(rng.Dur(time.Second, horizon))
			seam := "rtnl.addr"
			if prop == "C15" {
				seam = "rtnl.route"
			}
			// (the parked listing is the build's first, second or third: every
			// wildcard stanza makes its own)
			p.Faults = append(p.Faults, Fault{Seam: seam, From: t0, Hold: "hx", Skip: rng.Intn(3)})
			p.Actions = append(p.Actions, rsAction(t0+1000, hostAddr(0)),
				Action{At: t0 + 600*nsMs, Kind: "http", Path: []string{"/_/api/interfaces", "/metrics"}[rng.Intn(2)]},
				Action{At: t0 + 700*nsMs, Kind: "release", Hold: "hx"},
				rsAction(t0+900*nsMs, hostAddr(1)))
			if rng.Bool(0.5) {
				// ... and the tables change between the expansion that overtook and
				// the parked one's listing: each is made from what it was given
				if prop == "C15" {
					p.Actions = append(p.Actions, Action{At: t0 + 650*nsMs, Kind: "routes", Routes: pickRoutes(rng, 8, false)})
				} else {
					p.Actions = append(p.Actions, Action{At: t0 + 650*nsMs, Kind: "addrs", If: iw.Name, Addrs: pickAddrs(rng, iw.LL, 10)})
				}
			}
			if p.Horizon < t0+2*nsSec {
				p.Horizon = t0 + 2*nsSec
			}
			return p
		}
		switch rng.Intn(4) {
		case 0:
			p.Faults = append(p.Faults, Fault{Seam: "rtnl.addr", Count: -1, Mode: "perm", Arg: int64(rng.Intn(1 << 20))})
			p.Faults = append(p.Faults, Fault{Seam: "rtnl.route", Count: -1, Mode: "perm", Arg: int64(rng.Intn(1 << 20))})
		case 1:
			p.Faults = append(p.Faults, Fault{Seam: "rtnl.addr", Count: -1, Mode: "dup", Arg: int64(rng.Intn(1 << 20))})
			p.Faults = append(p.Faults, Fault{Seam: "rtnl.route", Count: -1, Mode: "dup", Arg: int64(rng.Intn(1 << 20))})
		case 2:
			// listing failures at arbitrary calls: faults
			p.Class = "faults"
			seam := []string{"rtnl.addr", "rtnl.route", "loopbacks"}[rng.Intn(3)]
			if prop == "C15" {
				seam = []string{"rtnl.route", "loopbacks"}[rng.Intn(2)]
			} else if rng.Bool(0.7) {
				seam = "rtnl.addr"
			}
			f := Fault{Seam: seam, N: rng.Range(1, 12)}
			if rng.Bool(0.4) {
				// a failure that persists over several consecutive calls (an
				// implementation that tries again meets it again)
				f = Fault{Seam: seam, Skip: rng.Range(0, 11), Count: rng.Range(2, 5)}
				p.Class = "faults+persistent"
			}
			if rng.Bool(0.7) {
				f.Err = []string{"nl.EPERM", "nl.EINVAL", "opaque", "nl.ENODEV"}[rng.Intn(4)]
			} else {
				f.Mode = "empty"
			}
			p.Faults = append(p.Faults, f)
		}
		return p
	}
}

// optsOfKind extracts the options of one kind from expected and wire lists.
func optsOfKind(m *modelOut, got []xopt, kind string) ([]eopt, []xopt) {
	var e []eopt
	var x []xopt
	for _, o := range m.opts {
		if strings.HasPrefix(o.fixed, kind+" ") {
			e = append(e, o)
		}
	}
	for _, o := range got {
		if strings.HasPrefix(o.fixed, kind+" ") {
			x = append(x, o)
		}
	}
	return e, x
}

func diffKind(e []eopt, x []xopt) string {
	for i := 0; i < len(e) || i < len(x); i++ {
		switch {
		case i >= len(x):
			return fmt.Sprintf("#%d missing: expected %s", i, e[i])
		case i >= len(e):
			return fmt.Sprintf("#%d unexpected: wire %s", i, x[i])
		case !e[i].matches(x[i]):
			return fmt.Sprintf("#%d: wire %s, expected %s", i, x[i], e[i])
		}
	}
	return ""
}

func listStr[T fmt.Stringer](l []T) string {
	s := make([]string, len(l))
	for i, x := range l {
		s[i] = x.String()
	}
	return "[" + strings.Join(s, "; ") + "]"
}

func wildOracle(prop string) func(info *runInfo, res *verifsim.Result) {
	kind := map[string]string{"C13": "prefix", "C14": "rdnss", "C15": "route"}[prop]
	rule := map[string]string{"C13": "C13.set", "C14": "C14.best", "C15": "C15.set"}[prop]
	return func(info *runInfo, res *verifsim.Result) {
		if info.rejected[0] != "" {
			res.Skipped = "config_rejected"
			return
		}
		if info.plan.Scenario == "clock" {
			// (C15 only) builds driven directly, the clock moving on every reading
			spec := &info.plan.Nodes[0].Config.Interfaces[0]
			for i := range info.ev {
				e := &info.ev[i]
				if e.K != "clock.build" || e.Err != "" {
					continue
				}
				t := info.epochs[0] + e.V
				in := modelIn{spec: spec, fwd: true, mac: info.plan.Nodes[0].Ifaces[0].MAC, nLoop: 1, epoch: info.epochs[0], t1: t, t2: t + int64(e.Ref),
					routes: []string{routeListString(info.plan.Loop)}}
				m := expectRA(in)
				ex, x := optsOfKind(m, wireOpts(parseRA(e.B)), kind)
				if d := diffKind(ex, x); d != "" {
					res.Violate(rule, "set", "clock reading epoch%+v: route options differ: %s", time.Duration(e.V), d)
					continue
				}
				for j := 1; j < len(x); j++ {
					if ex[j].stanza == ex[j-1].stanza && fmt.Sprint(x[j].v) != fmt.Sprint(x[j-1].v) {
						res.Violate(rule, "lifetime-differs", "clock reading epoch%+v: %s and %s were expanded from one ::/0 stanza but carry different lifetimes", time.Duration(e.V), x[j-1], x[j])
						break
					}
				}
				res.Nontrivial = true
				res.Probe("wildcard_expanded_under_a_moving_clock")
			}
			return
		}
		h := analyse(info.ev)
		checked := 0
		for _, w := range h.writes {
			if w.marshalErr != "" || w.ra == nil {
				continue
			}
			in, why := modelFor(info, h, w)
			if in == nil {
				res.Violate(prop+".model", "model", "%s", why)
				continue
			}
			if in.ambiguous {
				res.Probe("listings_side_by_side_saw_different_tables")
				continue
			}
			if prop != "C15" {
				stale := false
				for i, from := range w.build.addrIf {
					if g := h.byKey[genKey(w.node, w.ifn, w.gen)]; g != nil && g.index != 0 && w.build.addrIdx[i] != g.index {
						res.Violate(rule, "foreign-listing", "%s RA #%d at %s: address listing #%d was taken from %s, not from %s", w.ifn, w.seq, ms(w.t), i, from, w.ifn)
						stale = true
					}
				}
				if stale {
					continue
				}
			}
			m := expectRA(*in)
			if m.fail != "" {
				switch {
				case strings.HasPrefix(m.fail, "model:"):
					res.Violate(prop+".model", "model", "RA #%d: %s", w.seq, m.fail)
				case m.fail == "address listing failed" && (prop == "C13" || prop == "C14"):
					res.Violate(prop+".fail", "listing-failed", "RA #%d to %s at %s was transmitted although the address listing of that build failed (listings: %v)", w.seq, w.dst, ms(w.t), in.addr)
				case m.fail == "route listing failed" && prop == "C15":
					res.Violate("C15.fail", "listing-failed", "RA #%d to %s at %s was transmitted although a loopback route listing of that build failed (listings: %v): the expansion was made over an incomplete list", w.seq, w.dst, ms(w.t), in.routes)
				case strings.HasPrefix(m.fail, "no eligible") && prop == "C14":
					res.Violate("C14.fail", "no-eligible", "RA #%d to %s at %s was transmitted although no address is eligible for the RDNSS wildcard (listings: %v)", w.seq, w.dst, ms(w.t), in.addr)
				}
				continue
			}
			checked++
			e, x := optsOfKind(m, wireOpts(w.ra), kind)
			if d := diffKind(e, x); d != "" {
				sig := "set"
				res.Violate(rule, sig, "%s RA #%d to %s at %s: %s options differ: %s\n  wire:     %s\n  expected: %s\n  address listings: %v\n  route listings: %v",
					w.ifn, w.seq, w.dst, ms(w.t), kind, d, listStr(x), listStr(e), in.addr, in.routes)
			}
			if len(e) > 1 {
				res.Probe("multi_" + kind)
			}
			if len(e) == 0 {
				res.Probe("empty_" + kind)
			}
		}
		// An RA asked for before the interface has ever been initialised (debug
		// API, metrics): there is nothing to expand the wildcard from, so there
		// is no RA - not one without the options.
		{
			is := &info.plan.Nodes[0].Config.Interfaces[0]
			wild := false
			switch prop {
			case "C13":
				for _, x := range is.Prefixes {
					wild = wild || x.Prefix == nil || *x.Prefix == "" || *x.Prefix == "::/64"
				}
			case "C15":
				for _, x := range is.Routes {
					wild = wild || x.Prefix == nil || *x.Prefix == "" || *x.Prefix == "::/0"
				}
			case "C14":
				for _, x := range is.RDNSS {
					wild = wild || len(x.Servers) == 0
					for _, sv := range x.Servers {
						wild = wild || sv == "::"
					}
				}
			}
			acts := map[int]*verifsim.Event{}
			for i := range info.ev {
				e := &info.ev[i]
				switch e.K {
				case "act.http":
					acts[e.Seq] = e
				case "http.exit":
					a := acts[e.Ref]
					if a == nil || !wild || e.Err != "" || (a.S != "/metrics" && a.S != "/_/api/interfaces") {
						continue
					}
					never := true
					for _, g := range h.gens {
						if g.dialSeq < e.Seq {
							never = false
						}
					}
					if !never {
						continue
					}
					res.Probe("asked_before_first_initialisation")
					if e.V < 500 {
						res.Violate(prop+".fail", "not-initialised", "GET %s at %s answered %d although %s has never been initialised: its %s wildcard cannot be expanded, and RA generation has to fail rather than leave the options out", a.S, ms(a.T), e.V, strings.Join(is.names(), ","), kind)
					}
				}
			}
		}
		// A build whose listing failed must not have produced an RA: covered
		// above (m.fail). A build that failed although it should not have is
		// liveness (C10); here, count how often failure was reached at all.
		if prop != "C15" {
			// the initial RA of a re-dialed generation is built after every plugin
			// has been prepared for the (possibly re-created) interface: a listing by
			// an index the interface no longer has is then a stale index
			for _, b := range h.builds {
				if !isTaskGoroutine(info, b.g, b.ifn) {
					continue
				}
				// the generation being initialised: the latest successful dial before this build
				var g *generation
				for _, x := range h.gens {
					if x.node == b.node && x.ifn == b.ifn && x.dialSeq < b.seq {
						g = x
					}
				}
				if g == nil || g.index == 0 {
					continue
				}
				for i, from := range b.addrIf {
					if b.addrIdx[i] != g.index {
						res.Violate(rule, "stale-index", "%s: the build at %s listed addresses (#%d) of %s instead of %s after the interface had been re-created and re-dialed", b.ifn, ms(b.t1), i, from, b.ifn)
					}
				}
			}
		}
		for _, b := range h.builds {
			for _, a := range b.addr {
				if strings.HasPrefix(a, "!") {
					res.Probe("addr_listing_failed")
				}
			}
			for _, a := range b.routes {
				if strings.HasPrefix(a, "!") {
					res.Probe("route_listing_failed")
				}
			}
		}
		res.Nontrivial = checked >= 2
	}
}

func init() {
	for _, p := range []string{"C13", "C14", "C15"} {
		register(p, wildEnum(p), wildGen(p), wildOracle(p))
	}
}
