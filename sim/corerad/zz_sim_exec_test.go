package corerad

// The executor: wires real CoreRAD instances to the simulated world exactly as
// cmd/corerad/main.go wires them to the operating system, then walks the plan's
// timeline inside a synctest bubble.

import (
	"bufio"
	"sort"
	"bytes"
	"context"
	"encoding/json"
	"errors"
	"fmt"
	"io"
	"log"
	"net"
	"net/http"
	"net/http/httptest"
	"net/netip"
	"os"
	"reflect"
	"runtime"
	"strconv"
	"strings"
	"sync"
	"syscall"
	"testing"
	"testing/synctest"
	"time"
	"unsafe"

	"github.com/jsimonetti/rtnetlink"
	"github.com/mdlayher/corerad/internal/config"
	"github.com/mdlayher/corerad/internal/crhttp"
	"github.com/mdlayher/corerad/internal/netstate"
	"github.com/mdlayher/corerad/internal/system"
	"github.com/mdlayher/corerad/internal/verifsim"
	"github.com/mdlayher/corerad/verifyield"
	"github.com/mdlayher/metricslite"
	"github.com/mdlayher/ndp"
	"github.com/mdlayher/sdnotify"
	"github.com/prometheus/client_golang/prometheus"
	"github.com/prometheus/client_golang/prometheus/promhttp"
)

func (w *world) fault(name string) {
	w.mu.Lock()
	w.res.Fault(name)
	w.mu.Unlock()
}

func (w *world) probe(name string) {
	w.mu.Lock()
	w.res.Probe(name)
	w.mu.Unlock()
}

// scenarios are component-altitude executors (same kernel, smaller world).
var scenarios = map[string]func(w *world, p *Plan, info *runInfo){}

// runInfo is what the executor hands to the oracles besides the event log.
type runInfo struct {
	plan        *Plan
	ev          []verifsim.Event
	rejected    []string         // per node: config.Parse error ("" = accepted)
	cfgs        []*config.Config // per node
	epochs      []int64          // per node: fake ns at which config.Parse ran (the daemon's epoch)
	tasks       [][]string       // per node: String() of the tasks BuildTasks returned
	taskKind    [][]string       // per node: kind of each task (advertiser, monitor, http, watcher, script)
	served      []bool           // per node: Serve returned before the end of the run
	stopAt      int64            // fake time at which the horizon stop was issued (0 = never)
	startUnixNs int64            // absolute (fake) UNIX time of the run's time zero
}

// recTask records when a supervised task starts and returns.
type recTask struct {
	Task
	n *wnode
}

// Ready reports readiness of the wrapped task; at the very end of a run it is
// forced open so that Serve's readiness waiters (which would otherwise wait
// forever for a task that failed before becoming ready) can leave the bubble.
func (t recTask) Ready() <-chan struct{} {
	rc := make(chan struct{})
	inner := t.Task.Ready()
	go func() {
		select {
		case <-inner:
			t.n.w.log.Add(verifsim.Event{K: "task.ready", Node: t.n.id, S: t.Task.String()})
		case <-t.n.w.endC:
		}
		close(rc)
	}()
	return rc
}

func (t recTask) Run(ctx context.Context) error {
	t.n.w.log.Add(verifsim.Event{K: "task.enter", Node: t.n.id, S: t.Task.String()})
	err := t.Task.Run(ctx)
	e := verifsim.Event{K: "task.exit", Node: t.n.id, S: t.Task.String()}
	if err != nil {
		e.Err = err.Error()
	}
	t.n.w.log.Add(e)
	return err
}

// stubHTTPTask stands in for httpTask (which needs a real TCP listener): it is
// ready immediately and runs until cancelled.
type stubHTTPTask struct {
	addr   string
	readyC chan struct{}
}

func (t *stubHTTPTask) Run(ctx context.Context) error {
	close(t.readyC)
	<-ctx.Done()
	return nil
}
func (t *stubHTTPTask) Ready() <-chan struct{} { return t.readyC }
func (t *stubHTTPTask) String() string         { return fmt.Sprintf("debug HTTP server %q", t.addr) }

// scriptTask is a supervised task with scripted behaviour (C20).
type scriptTask struct {
	spec   ScriptTask
	n      *wnode
	term   func() bool
	readyC chan struct{}
}

func (t *scriptTask) Run(ctx context.Context) error {
	w := t.n.w
	var readyT, failT, nilT <-chan time.Time
	if t.spec.ReadyAt >= 0 {
		readyT = time.After(time.Duration(t.spec.ReadyAt))
	}
	if t.spec.FailAt >= 0 {
		failT = time.After(time.Duration(t.spec.FailAt))
	}
	if t.spec.NilAt >= 0 {
		nilT = time.After(time.Duration(t.spec.NilAt))
	}
	for {
		select {
		case <-readyT:
			readyT = nil
			w.log.Add(verifsim.Event{K: "script.ready", Node: t.n.id, S: t.spec.Name})
			close(t.readyC)
		case <-failT:
			w.log.Add(verifsim.Event{K: "script.fail", Node: t.n.id, S: t.spec.Name})
			if t.spec.FailKind == "canceled" {
				return fmt.Errorf("scripted failure of %s: lost upstream session: %w", t.spec.Name, context.Canceled)
			}
			return fmt.Errorf("scripted failure of %s", t.spec.Name)
		case <-nilT:
			w.log.Add(verifsim.Event{K: "script.nil", Node: t.n.id, S: t.spec.Name})
			return nil
		case <-ctx.Done():
			// The instant a task observes cancellation it asks whether the
			// process is terminating or reloading.
			e := verifsim.Event{K: "script.cancelled", Node: t.n.id, S: t.spec.Name}
			switch {
			case t.term == nil:
				e.V = -1 // the predicate could not be reached in this build (zz_sim_nodirect_test.go)
			case t.term():
				e.V = 1
			}
			w.log.Add(e)
			if t.spec.StopLag > 0 {
				time.Sleep(time.Duration(t.spec.StopLag))
			}
			w.log.Add(verifsim.Event{K: "script.return", Node: t.n.id, S: t.spec.Name})
			return nil
		}
	}
}
func (t *scriptTask) Ready() <-chan struct{} { return t.readyC }
func (t *scriptTask) String() string         { return "script " + t.spec.Name }

// daemon is one running CoreRAD instance.
type daemon struct {
	n       *wnode
	cfg     *config.Config
	handler http.Handler
	mem     *metricslite.Memory
	reg     *prometheus.Registry
	done    chan struct{}
	served  bool
}

func parseMAC(s string) net.HardwareAddr {
	if s == "" {
		return nil
	}
	m, err := net.ParseMAC(s)
	if err != nil {
		panic("sim: bad MAC " + s)
	}
	return m
}

func newWorld(p *Plan, res *verifsim.Result, start time.Time) *world {
	w := &world{
		log:     verifsim.NewLog(start),
		res:     res,
		plan:    p,
		byIdx:   map[int]*wiface{},
		loop:    append([]RouteW(nil), p.Loop...),
		ord:     map[string]int{},
		holds:   map[string]chan struct{}{},
		dialing: map[int]*wiface{},
		endC:    make(chan struct{}),
		ghosts:  map[int][]AddrW{},
	}
	for i := range p.Faults {
		f := &faultState{Fault: p.Faults[i], left: p.Faults[i].Count}
		if f.left == 0 {
			f.left = 1
		}
		w.faults = append(w.faults, f)
	}
	for i, ns := range p.Nodes {
		n := &wnode{
			w: w, id: i,
			ifaces: map[string]*wiface{},
			linkC:  make(chan []rtnetlink.Message),
			watchE: make(chan error),
			sigC:   make(chan os.Signal, 1),
		}
		for _, is := range ns.Ifaces {
			ifc := &wiface{n: n, spec: is, fwd: is.Fwd, auto: is.Auto, down: is.Down,
				mac: parseMAC(is.MAC), addrs: append([]AddrW(nil), is.Addrs...)}
			n.ifaces[is.Name] = ifc
			n.names = append(n.names, is.Name)
			w.byIdx[is.Index] = ifc
		}
		w.nodes = append(w.nodes, n)
	}
	return w
}

// start mirrors cmd/corerad/main.go for one node. It returns nil (and records
// the rejection) when the real parser refuses the configuration.
func (n *wnode) start(ns NodeSpec, info *runInfo) *daemon {
	w := n.w
	ll := log.New(simLogWriter{n}, "", 0)

	// "Parse the config with this startup time as the CoreRAD epoch".
	info.epochs[n.id] = w.log.Now()
	cfg, err := config.Parse(strings.NewReader(ns.Config.TOML()), time.Now())
	if err != nil {
		info.rejected[n.id] = err.Error()
		w.log.Add(verifsim.Event{K: "config.rejected", Node: n.id, Err: err.Error()})
		return nil
	}
	info.cfgs[n.id] = cfg

	d := &daemon{n: n, cfg: cfg, done: make(chan struct{})}
	state := simState{n}

	d.reg = prometheus.NewPedanticRegistry()
	var backend metricslite.Interface
	if ns.Metrics == "mem" {
		d.mem = metricslite.NewMemory()
		backend = d.mem
	} else {
		backend = metricslite.NewPrometheus(d.reg)
	}
	mm := NewMetrics(recMetrics{Interface: backend, n: n}, "sim", time.Time{}, state, cfg.Interfaces)
	cctx := NewContext(ll, mm, state)
	d.handler = crhttp.NewHandler(ll, state, *cfg, promhttp.HandlerFor(d.reg, promhttp.HandlerOpts{}))

	s := NewServer(cctx)
	// The harness reaches into a few unexported fields of the daemon's types. It
	// finds them by their TYPE, not by their name (a renamed field must not keep
	// the checks from building): the link watcher of the Server, the Dialer of an
	// Advertiser or Monitor. Interface names and the debug server's address are
	// read off the tasks' String(), which the daemon itself publishes in its
	// status notifications.
	if !setFieldOfType(s, netstate.NewWatcherFromSource(n.watchSource)) {
		panic("sim: Server has no *netstate.Watcher field")
	}

	var tasks []Task
	if !ns.OnlyScript {
		tasks = s.BuildTasks(*cfg, simHTTPHandler{w: w, node: n.id, inner: d.handler})
	}
	var term func() bool
	for i, t := range tasks {
		info.tasks[n.id] = append(info.tasks[n.id], t.String())
		str := t.String()
		switch t := t.(type) {
		case *Advertiser:
			info.taskKind[n.id] = append(info.taskKind[n.id], "advertiser")
			name := taskIface(str)
			ifc := n.ifaces[name]
			if ifc == nil {
				panic("sim: config names interface the world lacks: " + name)
			}
			dl, ok := fieldOfType[*system.Dialer](t)
			if !ok {
				panic("sim: Advertiser has no *system.Dialer field")
			}
			if system.SimRealDial {
				dl.DialFunc = ifc.realDial(dl.DialFunc)
			} else {
				dl.DialFunc = ifc.dialFunc(system.Advertise)
			}
			if f, ok := fieldOfType[func() bool](t); ok && f != nil && term == nil {
				term = f
			}
			t.OnInconsistentRA = func(ours, theirs *ndp.RouterAdvertisement) {
				w.log.Add(verifsim.Event{K: "inconsistent", Node: n.id, If: name})
			}
		case *Monitor:
			info.taskKind[n.id] = append(info.taskKind[n.id], "monitor")
			name := taskIface(str)
			ifc := n.ifaces[name]
			if ifc == nil {
				panic("sim: config names interface the world lacks: " + name)
			}
			dl, ok := fieldOfType[*system.Dialer](t)
			if !ok {
				panic("sim: Monitor has no *system.Dialer field")
			}
			if system.SimRealDial {
				dl.DialFunc = ifc.realDial(dl.DialFunc)
			} else {
				dl.DialFunc = ifc.dialFunc(system.Monitor)
			}
			t.OnMessage = func(m ndp.Message) {
				w.log.Add(verifsim.Event{K: "onmessage", Node: n.id, If: name, S: m.Type().String()})
			}
			if step := info.plan.Opt["monitor_clock_step"]; step > 0 {
				// a clock that has moved on every time somebody looks at it (as
				// real clocks do): reading k of this monitor says now + k*step
				var reads int64
				var mu sync.Mutex
				clock := func() time.Time {
					mu.Lock()
					reads++
					k := reads
					mu.Unlock()
					v := time.Now().Add(time.Duration(k * step))
					w.log.Add(verifsim.Event{K: "mon.now", Node: n.id, If: name, V: v.UnixNano() - info.startUnixNs})
					return v
				}
				if !setFieldOfType(t, clock) {
					w.log.Add(verifsim.Event{K: "mon.now", Node: n.id, If: name, Err: "Monitor has no clock to replace"})
				}
			}
		default:
			switch {
			case strings.HasPrefix(str, "debug HTTP server "):
				info.taskKind[n.id] = append(info.taskKind[n.id], "http")
				if !SimRealHTTP {
					// needs a real TCP listener: replaced by a stub with the same name
					addr, _ := strconv.Unquote(strings.TrimPrefix(str, "debug HTTP server "))
					tasks[i] = &stubHTTPTask{addr: addr, readyC: make(chan struct{})}
				}
			case str == "link state watcher":
				info.taskKind[n.id] = append(info.taskKind[n.id], "watcher")
			default:
				info.taskKind[n.id] = append(info.taskKind[n.id], fmt.Sprintf("%T", t))
			}
		}
	}
	if term == nil {
		term = serverTerminate(s)
	}
	for _, st := range ns.Script {
		tasks = append(tasks, &scriptTask{spec: st, n: n, term: term, readyC: make(chan struct{})})
	}
	for i := range tasks {
		tasks[i] = recTask{Task: tasks[i], n: n}
	}

	// Recording systemd notifier.
	nf := new(sdnotify.Notifier)
	var wc io.WriteCloser = simNotifyWriter{n}
	*(*io.WriteCloser)(unsafe.Pointer(nf)) = wc

	go func() {
		defer close(d.done)
		w.log.Add(verifsim.Event{K: "serve.enter", Node: n.id})
		err := s.Serve(n.sigC, nf, tasks)
		e := verifsim.Event{K: "serve.exit", Node: n.id}
		if err != nil {
			e.Err = err.Error()
		}
		w.log.Add(e)
	}()
	return d
}

func signalByName(s string) os.Signal {
	switch s {
	case "SIGINT":
		return os.Interrupt
	case "SIGHUP":
		return syscall.SIGHUP
	case "SIGQUIT":
		return syscall.SIGQUIT
	case "SIGUSR1":
		return syscall.SIGUSR1
	default:
		return syscall.SIGTERM
	}
}

// buildRA turns a peer RA description into a message.
func (r *RASpec) message() *ndp.RouterAdvertisement {
	pref := func(s string) ndp.Preference {
		switch s {
		case "low":
			return ndp.Low
		case "high":
			return ndp.High
		}
		return ndp.Medium
	}
	ra := &ndp.RouterAdvertisement{
		CurrentHopLimit:           uint8(r.Hop),
		ManagedConfiguration:      r.M,
		OtherConfiguration:        r.O,
		RouterSelectionPreference: pref(r.Pref),
		RouterLifetime:            time.Duration(r.Lifetime) * time.Second,
		ReachableTime:             time.Duration(r.Reach) * time.Millisecond,
		RetransmitTimer:           time.Duration(r.Retrans) * time.Millisecond,
	}
	for _, o := range r.Opts {
		switch o.Kind {
		case "prefix":
			p := netip.MustParsePrefix(o.Prefix)
			ra.Options = append(ra.Options, &ndp.PrefixInformation{
				PrefixLength: uint8(p.Bits()), OnLink: o.OnLink, AutonomousAddressConfiguration: o.Auto,
				ValidLifetime: time.Duration(o.Valid) * time.Second, PreferredLifetime: time.Duration(o.Pref) * time.Second,
				Prefix: p.Addr(),
			})
		case "route":
			p := netip.MustParsePrefix(o.Prefix)
			ra.Options = append(ra.Options, &ndp.RouteInformation{
				PrefixLength: uint8(p.Bits()), Preference: pref(o.RPref),
				RouteLifetime: time.Duration(o.Life) * time.Second, Prefix: p.Addr(),
			})
		case "rdnss":
			var ss []netip.Addr
			for _, s := range o.Servers {
				ss = append(ss, netip.MustParseAddr(s))
			}
			ra.Options = append(ra.Options, &ndp.RecursiveDNSServer{Lifetime: time.Duration(o.Life) * time.Second, Servers: ss})
		case "dnssl":
			ra.Options = append(ra.Options, &ndp.DNSSearchList{Lifetime: time.Duration(o.Life) * time.Second, DomainNames: o.Domains})
		case "mtu":
			ra.Options = append(ra.Options, ndp.NewMTU(o.MTU))
		case "slla":
			ra.Options = append(ra.Options, &ndp.LinkLayerAddress{Direction: ndp.Source, Addr: parseMAC(o.MAC)})
		case "cp":
			ra.Options = append(ra.Options, &ndp.CaptivePortal{URI: o.URI})
		case "pref64":
			ra.Options = append(ra.Options, &ndp.PREF64{Prefix: netip.MustParsePrefix(o.Prefix), Lifetime: time.Duration(o.Life) * time.Second})
		case "raw":
			ra.Options = append(ra.Options, &ndp.RawOption{Type: uint8(o.Type), Length: uint8((len(o.Raw) + 2) / 8), Value: o.Raw})
		default:
			panic("sim: unknown option kind " + o.Kind)
		}
	}
	return ra
}

// packetFor builds the bytes of a packet action.
func (w *world) packetFor(a *Action, ifc *wiface) ([]byte, error) {
	var m ndp.Message
	switch a.Kind {
	case "rs":
		rs := &ndp.RouterSolicitation{}
		if a.SLLA != "" {
			rs.Options = append(rs.Options, &ndp.LinkLayerAddress{Direction: ndp.Source, Addr: parseMAC(a.SLLA)})
		}
		m = rs
	case "ra":
		m = a.RA.message()
	case "ns":
		m = &ndp.NeighborSolicitation{TargetAddress: netip.MustParseAddr(ifc.spec.LL)}
	case "na":
		m = &ndp.NeighborAdvertisement{Solicited: true, TargetAddress: netip.MustParseAddr(a.Src)}
	case "echo":
		// Our own most recent multicast RA, re-sent by someone else.
		ev := w.log.Events()
		for i := len(ev) - 1; i >= 0; i-- {
			e := &ev[i]
			if e.K == "write.enter" && e.Node == ifc.n.id && e.If == ifc.spec.Name && e.Err == "" && strings.HasPrefix(e.S, "ff02::1") {
				return append([]byte(nil), e.B...), nil
			}
		}
		return nil, errors.New("nothing to echo yet")
	default:
		panic("sim: not a packet action: " + a.Kind)
	}
	return ndp.MarshalMessage(m)
}

// apply performs one environment action. Called by the driver at quiescence.
func (w *world) apply(a *Action, ds []*daemon) {
	if a.Then != nil {
		// a second thing that happens before the daemon gets to run again
		defer func() {
			t := *a.Then
			if t.If == "" {
				t.If = a.If
			}
			t.Node = a.Node
			w.apply(&t, ds)
		}()
	}
	e := verifsim.Event{K: "act." + a.Kind, Node: a.Node, If: a.If}
	var n *wnode
	if a.Node < len(w.nodes) {
		n = w.nodes[a.Node]
	}
	var ifc *wiface
	if n != nil && a.If != "" {
		ifc = n.ifaces[a.If]
	}

	switch a.Kind {
	case "rs", "ra", "ns", "na", "echo":
		if ifc == nil {
			return
		}
		b, err := w.packetFor(a, ifc)
		if err != nil {
			e.Err = err.Error()
			w.log.Add(e)
			return
		}
		hop := 255
		if a.Hop != nil {
			hop = *a.Hop
		}
		src := netip.MustParseAddr(a.Src)
		cnt := a.N
		if cnt < 1 {
			cnt = 1
		}
		w.mu.Lock()
		c := ifc.conn
		w.mu.Unlock()
		e.S, e.B, e.V = a.Src, b, int64(hop)
		if c == nil {
			e.Err = "no socket"
			w.log.Add(e)
			return
		}
		e.Gen = c.gen
		for i := 0; i < cnt; i++ {
			w.log.Add(e)
			c.deliver(packet{b: b, src: src, hop: hop})
		}
	case "fwd":
		if ifc != nil {
			w.mu.Lock()
			ifc.fwd = a.On
			w.mu.Unlock()
			if a.On {
				e.V = 1
			}
			w.log.Add(e)
		}
	case "autoconf":
		if ifc != nil {
			w.mu.Lock()
			ifc.auto = a.On
			w.mu.Unlock()
			if a.On {
				e.V = 1
			}
			w.log.Add(e)
		}
	case "addrs":
		if ifc != nil {
			w.mu.Lock()
			ifc.addrs = append([]AddrW(nil), a.Addrs...)
			w.mu.Unlock()
			e.S = addrListString(a.Addrs)
			w.log.Add(e)
		}
	case "routes":
		w.mu.Lock()
		w.loop = append([]RouteW(nil), a.Routes...)
		w.mu.Unlock()
		e.S = routeListString(a.Routes)
		w.log.Add(e)
	case "mac":
		if ifc != nil {
			w.mu.Lock()
			ifc.mac = parseMAC(a.MAC)
			w.mu.Unlock()
			e.S = a.MAC
			w.log.Add(e)
		}
	case "reindex":
		// the interface is deleted and re-created (tunnel, VLAN, PPP…): same name,
		// new index; the old index is either gone or re-used by another interface
		if ifc != nil && a.N > 0 {
			w.mu.Lock()
			old := ifc.spec.Index
			delete(w.byIdx, old)
			ifc.spec.Index = a.N
			w.byIdx[a.N] = ifc
			if len(a.Addrs) > 0 {
				w.ghosts[old] = append([]AddrW(nil), a.Addrs...)
			}
			w.mu.Unlock()
			e.V = int64(a.N)
			w.log.Add(e)
			// the kernel announces it: the old link goes away (RTM_DELLINK / oper down)
			msg := &rtnetlink.LinkMessage{Attributes: &rtnetlink.LinkAttributes{Name: a.If, OperationalState: operState("down")}}
			select {
			case n.linkC <- []rtnetlink.Message{msg}:
				w.log.Add(verifsim.Event{K: "act.link", Node: a.Node, If: a.If, S: "down"})
			default:
			}
		}
	case "ifdown", "ifup":
		if ifc != nil {
			w.mu.Lock()
			ifc.down = a.Kind == "ifdown"
			w.mu.Unlock()
			w.log.Add(e)
		}
	case "link":
		if n == nil {
			return
		}
		e.S = a.Oper
		// "down+up": several messages about the interface in ONE batch, as one
		// receive from the rtnetlink socket may return them
		var batch []rtnetlink.Message
		for _, op := range strings.Split(a.Oper, "+") {
			batch = append(batch, &rtnetlink.LinkMessage{Attributes: &rtnetlink.LinkAttributes{Name: a.If, OperationalState: operState(op)}})
		}
		select {
		case n.linkC <- batch:
		default:
			e.Err = "watcher not listening"
		}
		w.log.Add(e)
	case "watchend":
		if n == nil {
			return
		}
		var err error
		if a.Err != "" {
			err = errors.New(a.Err)
			e.Err = a.Err
		}
		select {
		case n.watchE <- err:
		default:
			e.Err = "watcher not listening"
		}
		w.log.Add(e)
	case "signal":
		if n == nil {
			return
		}
		e.S = a.Sig
		select {
		case n.sigC <- signalByName(a.Sig):
		default:
			e.Err = "signal queue full"
		}
		w.log.Add(e)
	case "release":
		e.S = a.Hold
		w.log.Add(e)
		w.release(a.Hold)
	case "http":
		if a.Node >= len(ds) || ds[a.Node] == nil {
			return
		}
		d := ds[a.Node]
		e.S = a.Path
		if a.Conn && SimRealHTTP {
			// over a connection, through the real http.Server (the handler it was
			// given logs http.enter / http.exit itself: simHTTPHandler)
			c := w.connect()
			if c == nil {
				e.Err = "connection refused"
				w.log.Add(e)
				return
			}
			e.V = 1
			ref := w.log.Add(e)
			go func() {
				x := verifsim.Event{K: "http.client", Node: a.Node, S: a.Path, Ref: ref}
				defer func() { w.log.Add(x) }()
				defer c.Close()
				if _, err := fmt.Fprintf(c, "GET %s HTTP/1.1\r\nHost: sim\r\nX-Sim-Ref: %d\r\nConnection: close\r\n\r\n", a.Path, ref); err != nil {
					x.Err = "write: " + err.Error()
					return
				}
				if a.Hold != "" {
					// a client that has sent its request and then stops reading (until
					// that hold is released): the handler's response does not drain
					w.fault("client-stalls")
					<-w.holdC(a.Hold)
				}
				resp, err := http.ReadResponse(bufio.NewReader(c), nil)
				if err != nil {
					x.Err = "read: " + err.Error()
					return
				}
				_, _ = io.Copy(io.Discard, resp.Body)
				resp.Body.Close()
				x.V = int64(resp.StatusCode)
			}()
			return
		}
		ref := w.log.Add(e)
		go func() {
			x := verifsim.Event{K: "http.exit", Node: a.Node, S: a.Path, Ref: ref}
			rec := httptest.NewRecorder()
			func() {
				defer func() {
					if r := recover(); r != nil {
						x.Err = fmt.Sprintf("panic: %v", r)
					}
				}()
				w.log.Add(verifsim.Event{K: "http.enter", Node: a.Node, S: a.Path, Ref: ref})
				d.handler.ServeHTTP(rec, httptest.NewRequest("GET", a.Path, nil))
			}()
			x.V = int64(rec.Code)
			switch {
			case strings.HasPrefix(a.Path, "/debug/pprof"):
				// the pprof index lists live goroutine/heap counts of the process: not part of the run
			case rec.Code >= 500:
				// error bodies list collector errors in map order: keep the first line only
				b := rec.Body.Bytes()
				if i := bytes.IndexByte(b, '\n'); i >= 0 {
					b = b[:i]
				}
				x.B = b
			default:
				x.B = rec.Body.Bytes()
			}
			w.log.Add(x)
		}()
	case "series":
		// Memory-backend scrape (Metrics.Series as the tests use it).
		if a.Node >= len(ds) || ds[a.Node] == nil || ds[a.Node].mem == nil {
			return
		}
		d := ds[a.Node]
		ref := w.log.Add(e)
		go func() {
			x := verifsim.Event{K: "series.exit", Node: a.Node, Ref: ref}
			func() {
				defer func() {
					if r := recover(); r != nil {
						x.Err = fmt.Sprintf("panic: %v", r)
					}
				}()
				w.log.Add(verifsim.Event{K: "series.enter", Node: a.Node, Ref: ref})
				s := d.mem.Series()
				b, _ := json.Marshal(s)
				x.B = b
			}()
			w.log.Add(x)
		}()
	case "mark":
		e.S = a.Path
		w.log.Add(e)
	default:
		panic("sim: unknown action kind " + a.Kind)
	}
}

// bubbleBaseline is the number of harness goroutines alive until endC closes
// (one readiness forwarder per task at most); only used to skip a long sleep.
const bubbleBaseline = 0

// bubbleGoroutines counts goroutines of the current bubble other than the
// caller and returns their stacks.
func bubbleGoroutines() (int, string) {
	buf := make([]byte, 1<<20)
	n := runtime.Stack(buf, true)
	parts := bytes.Split(buf[:n], []byte("\n\n"))
	me := fmt.Sprintf("goroutine %d ", verifsim.Goid())
	cnt := 0
	var sb strings.Builder
	for _, p := range parts {
		hdr, _, _ := bytes.Cut(p, []byte("\n"))
		if !bytes.Contains(hdr, []byte("synctest bubble")) || bytes.HasPrefix(hdr, []byte(me)) {
			continue
		}
		if bytes.Contains(p, []byte("testing/synctest.")) || bytes.Contains(p, []byte("internal/synctest.Run")) {
			continue // the bubble's own bookkeeping goroutines
		}
		cnt++
		if sb.Len() < 6000 {
			sb.Write(p)
			sb.WriteString("\n\n")
		}
	}
	return cnt, sb.String()
}

// execPlan runs one plan in a fresh bubble and returns what the oracles need.
func execPlan(t *testing.T, p *Plan, res *verifsim.Result, oracle func(*runInfo)) *runInfo {
	info := &runInfo{plan: p}
	nn := len(p.Nodes)
	info.rejected = make([]string, nn)
	info.cfgs = make([]*config.Config, nn)
	info.epochs = make([]int64, nn)
	info.tasks = make([][]string, nn)
	info.taskKind = make([][]string, nn)
	info.served = make([]bool, nn)

	synctest.Test(t, func(t *testing.T) {
		if p.Offset > 0 {
			time.Sleep(time.Duration(p.Offset))
		}
		start := time.Now()
		info.startUnixNs = start.UnixNano()
		w := newWorld(p, res, start)
		context.VerifCancelSeed = p.Cancel
		if p.Sched != 0 {
			// Which of several goroutines runnable in one instant goes first is
			// the Go scheduler's FIFO by default; with a Sched seed every marked
			// synchronisation point of internal/corerad, internal/system and
			// internal/netstate steps back with probability 1/3, in an order that
			// is a function of the seed alone (one P, no preemption).
			// Half of the seeds are "swarm" seeds: each site gets a policy of its
			// own for the whole run (never / one in three / always), a function
			// of the seed and the site's name. A goroutine that always steps back
			// at one particular select while another never does at its send is the
			// kind of sustained bias that independent coins produce once in 3^17.
			x := p.Sched
			swarm := (p.Sched>>1)&1 == 1
			mix := func(z uint64) uint64 {
				z = (z ^ (z >> 30)) * 0xbf58476d1ce4e5b9
				z = (z ^ (z >> 27)) * 0x94d049bb133111eb
				return z ^ (z >> 31)
			}
			policy := map[string]uint64{}
			var biasKeys []string
			for k := range p.Bias {
				biasKeys = append(biasKeys, k)
			}
			sort.Slice(biasKeys, func(i, j int) bool { // the longest matching key wins
				if len(biasKeys[i]) != len(biasKeys[j]) {
					return len(biasKeys[i]) < len(biasKeys[j])
				}
				return biasKeys[i] < biasKeys[j]
			})
			trace := os.Getenv("VERIF_YIELD_TRACE") != ""
			verifyield.Hook = func(site string) {
				x += 0x9e3779b97f4a7c15
				if trace {
					fmt.Fprintf(os.Stderr, "yield g%d %s\n", verifsim.Goid(), site)
				}
				if swarm || len(biasKeys) > 0 {
					pol, ok := policy[site]
					if !ok {
						for _, k := range biasKeys {
							if strings.HasPrefix(site, k) {
								pol, ok = p.Bias[k], true
							}
						}
						if ok {
							policy[site] = pol
						}
					}
					if !ok && !swarm {
						pol, ok = 1, true
					}
					if !ok {
						h := uint64(14695981039346656037)
						for i := 0; i < len(site); i++ {
							h = (h ^ uint64(site[i])) * 1099511628211
						}
						pol = mix(h^p.Sched) % 4
						policy[site] = pol
					}
					switch pol {
					case 0:
						return
					case 3:
						runtime.Gosched()
						return
					}
				}
				if mix(x)%3 == 0 {
					runtime.Gosched()
				}
			}
			defer func() { verifyield.Hook = nil }()
		}
		context.VerifSetMapSeed(p.Cancel ^ uint64(p.Offset))
		system.VerifRtnl = w.rtnl
		system.VerifLoopbacks = w.loopbacks
		system.SimKernel = worldKernel{w}
		SimListen = w.listen
		defer func() { system.VerifRtnl, system.VerifLoopbacks, system.SimKernel, SimListen = nil, nil, nil, nil }()

		if p.Scenario != "" {
			sc, ok := scenarios[p.Scenario]
			if !ok {
				panic("sim: unknown scenario " + p.Scenario)
			}
			sc(w, p, info)
			synctest.Wait()
			w.endRun()
			w.log.Add(verifsim.Event{K: "act.final"})
			close(w.endC)
			synctest.Wait()
			n, stacks := bubbleGoroutines()
			info.ev = w.log.Events()
			res.FakeNs = w.log.Now()
			if n > 0 {
				res.Leaked, res.LeakStacks = n, stacks
			}
			oracle(info)
			finish(res, info)
			if n > 0 {
				verifsim.LeakExit(res)
			}
			return
		}

		ds := make([]*daemon, nn)
		for i, ns := range p.Nodes {
			ds[i] = w.nodes[i].start(ns, info)
		}
		synctest.Wait()

		acts := append([]Action(nil), p.Actions...)
		sortActions(acts)
		for i := range acts {
			a := &acts[i]
			if a.At > p.Horizon && p.Horizon > 0 {
				break
			}
			if d := time.Duration(a.At) - time.Since(start); d > 0 {
				time.Sleep(d)
			}
			synctest.Wait()
			w.apply(a, ds)
			synctest.Wait()
		}
		if d := time.Duration(p.Horizon) - time.Since(start); d > 0 {
			time.Sleep(d)
		}
		synctest.Wait()

		// Stop every instance still serving.
		stop := p.Stop
		if stop == "" || stop == "none" {
			stop = "SIGTERM"
		}
		for i, d := range ds {
			if d == nil {
				continue
			}
			select {
			case <-d.done:
				info.served[i] = true
				continue
			default:
			}
			if info.stopAt == 0 {
				info.stopAt = w.log.Now()
			}
			e := verifsim.Event{K: "act.signal", Node: i, S: stop, V: 1}
			select {
			case w.nodes[i].sigC <- signalByName(stop):
			default:
				e.Err = "signal queue full"
			}
			w.log.Add(e)
		}
		synctest.Wait()
		// Grace period with the plan's holds still in force, then open every
		// hold and let the remaining timers run out.
		time.Sleep(2 * time.Second)
		synctest.Wait()
		w.log.Add(verifsim.Event{K: "act.endrun"})
		w.endRun()
		tail := time.Duration(p.Tail)
		if tail <= 0 {
			tail = 10 * time.Second
		}
		time.Sleep(tail)
		synctest.Wait()
		for i, d := range ds {
			if d == nil {
				continue
			}
			select {
			case <-d.done:
				info.served[i] = true
			default:
			}
		}
		// Anything still alive now is stuck for good: give long timers (dial
		// back-off, 50 attempts x 3 s) a last chance, then count survivors.
		n, _ := bubbleGoroutines()
		if n > bubbleBaseline {
			time.Sleep(200 * time.Second)
			synctest.Wait()
		}
		w.log.Add(verifsim.Event{K: "act.final"})
		close(w.endC)
		synctest.Wait()
		n, stacks := bubbleGoroutines()
		info.ev = w.log.Events()
		res.FakeNs = w.log.Now()
		if n > 0 {
			res.Leaked = n
			res.LeakStacks = stacks
		}
		oracle(info)
		finish(res, info)
		if n > 0 {
			verifsim.LeakExit(res)
		}
	})
	return info
}

// finish fills the bookkeeping fields of the result.
func finish(res *verifsim.Result, info *runInfo) {
	res.Events = len(info.ev)
	res.Hash = verifsim.Hash(info.ev)
	res.Sched = verifsim.SchedSig(info.ev)
	res.Class = info.plan.Class
	n := len(info.ev)
	if n > 40 {
		n = 40
	}
	res.Head = info.ev[:n]
	if verifsim.Dump() {
		res.Log = info.ev
	}
}

// fieldOfType returns the value of the first field of *ptr's struct whose type
// is exactly T (exported or not).
func fieldOfType[T any](ptr any) (T, bool) {
	var zero T
	v := reflect.ValueOf(ptr)
	if v.Kind() != reflect.Pointer || v.Elem().Kind() != reflect.Struct {
		return zero, false
	}
	v = v.Elem()
	want := reflect.TypeOf((*T)(nil)).Elem()
	for i := 0; i < v.NumField(); i++ {
		if f := v.Field(i); f.Type() == want {
			return reflect.NewAt(f.Type(), unsafe.Pointer(f.UnsafeAddr())).Elem().Interface().(T), true
		}
	}
	return zero, false
}

// setFieldOfType stores val in the first field of *ptr's struct whose type is
// val's type.
func setFieldOfType(ptr, val any) bool {
	v := reflect.ValueOf(ptr).Elem()
	want := reflect.TypeOf(val)
	for i := 0; i < v.NumField(); i++ {
		if f := v.Field(i); f.Type() == want {
			reflect.NewAt(f.Type(), unsafe.Pointer(f.UnsafeAddr())).Elem().Set(reflect.ValueOf(val))
			return true
		}
	}
	return false
}

// simHTTPHandler is what the real debug HTTP server is given as its handler:
// the daemon's handler, with the request's start and outcome logged exactly as
// for requests handed over directly (so that the oracles do not care how a
// request travelled). Requests are told apart by the X-Sim-Ref header.
type simHTTPHandler struct {
	w     *world
	node  int
	inner http.Handler
}

func (h simHTTPHandler) ServeHTTP(rw http.ResponseWriter, r *http.Request) {
	ref, err := strconv.Atoi(r.Header.Get("X-Sim-Ref"))
	if err != nil {
		h.inner.ServeHTTP(rw, r)
		return
	}
	path := r.URL.Path
	x := verifsim.Event{K: "http.exit", Node: h.node, S: path, Ref: ref}
	rec := httptest.NewRecorder()
	func() {
		defer func() {
			if p := recover(); p != nil {
				x.Err = fmt.Sprintf("panic: %v", p)
			}
		}()
		h.w.log.Add(verifsim.Event{K: "http.enter", Node: h.node, S: path, Ref: ref})
		h.inner.ServeHTTP(rec, r)
	}()
	x.V = int64(rec.Code)
	switch {
	case strings.HasPrefix(path, "/debug/pprof"):
	case rec.Code >= 500:
		b := rec.Body.Bytes()
		if i := bytes.IndexByte(b, '\n'); i >= 0 {
			b = b[:i]
		}
		x.B = b
	default:
		x.B = rec.Body.Bytes()
	}
	h.w.log.Add(x)
	for k, v := range rec.Header() {
		rw.Header()[k] = v
	}
	rw.WriteHeader(rec.Code)
	_, _ = rw.Write(rec.Body.Bytes())
}
