//go:build !verif_nodirect

package corerad

// Direct use of unexported identifiers that cannot be reached by type (see
// zz_sim_nodirect_test.go for what replaces this file when it does not compile
// against the tree).

// serverTerminate is the Server's "terminate or reload?" predicate, handed to
// scripted tasks (C20.termflag) when no Advertiser carries it.
func serverTerminate(s *Server) func() bool { return s.t.terminate }

const directAccess = true
