package corerad

// C03 — an accepted configuration always yields a wire-encodable,
// meaning-preserving RA.

import (
	"bytes"
	"fmt"
	"net/netip"
	"strings"
	"time"

	"github.com/mdlayher/corerad/internal/verifsim"
	"github.com/mdlayher/ndp"
)

// Duration strings aimed at representability: negative, sub-unit, field
// boundaries, beyond 32 bits, the documented specials.
var c03Durations = []string{
	"-1s", "-1ns", "-5s", "-24h", "0.5s", "999ms", "1ns", "1.9999s", "1s", "2s", "65535s", "65536s", "18h12m16s",
	"4294967294s", "4294967295s", "4294967296s", "1193046h", "1193047h", "2562047h", "infinite", "", "auto",
	"100000h", "8589934592s", "1h0m0.000000001s",
	// spellings a parser might come to accept: no unit, a sign, a space, upper
	// case, a decimal comma (today all rejected; if accepted, the range rules
	// apply to them like to any other)
	"-30", "4294967296", "86400", "0", "+5s", " 30s", "30S", "1,5s", "1e3s", "0x10s", "1d",
}

var c03Pref64 = []string{
	"64:ff9b::/96", "2001:db8::/96", "2001:db8::/64", "2001:db8::/56", "2001:db8::/48", "2001:db8::/40", "2001:db8::/32",
	"2001:db8::/33", "2001:db8::/95", "2001:db8::/97", "2001:db8::/128", "::/0", "2001:db8::/16", "2001:db8::/8", "2001:db8::/63",
	"10.0.0.0/8", "192.0.2.0/24", "::ffff:192.0.2.0/120", "::ffff:0.0.0.0/96", "2001:db8::1/96", "64:ff9b::/31", "",
	// every other byte-aligned length (none of them has a PREF64 length code)
	"2001:db8::/24", "2001:db8:1::/72", "2001:db8:1::/80", "2001:db8:1::/88", "2001:db8:1::/104", "2001:db8:1::/112", "2001:db8:1::/120",
}

func c03Gen(rng *verifsim.RNG, idx int, tier string) *Plan {
	// A share of the runs drives RA generation through the plugins' clock seam,
	// every call of the clock getting the next reading (C16's component
	// scenario): a duration computed from two readings that straddle a deadline
	// must still be one its wire field can carry and the configuration meant.
	if q := c16Gen(rng, idx, tier); q.Scenario == "clock" && q.Opt["per_call"] == 1 {
		q.Class = "clock-seam-per-call"
		return q
	}
	p := oneAdvertiser(rng)
	n := &p.Nodes[0]
	s := &n.Config.Interfaces[0]
	iw := &n.Ifaces[0]
	iw.Addrs = pickAddrs(rng, iw.LL, 4)
	genIfaceSpec(rng, s, cfgOpts{frac: true, wildcards: rng.Bool(0.3), deprecated: false, intervals: true})
	n.Config.Shuffle = rng.U64() | 1
	p.Loop = pickRoutes(rng, 3, false)
	p.Class = "valid-range"

	pickD := func() *string { return sp(c03Durations[rng.Intn(len(c03Durations))]) }
	if rng.Bool(0.45) {
		p.Class = "edge"
		// Put boundary strings into one to three duration keys.
		for k, kn := 0, rng.Range(1, 3); k < kn; k++ {
			switch rng.Intn(8) {
			case 7:
				// the advertisement intervals: everything derived from them (the
				// default router lifetime, the NAT64 lifetime) has to fit its field too
				s.MaxInterval = sp([]string{"3s", "4s", "1800s", "1801s", "2h", "6h", "7h", "65535s", "65536s", "18h12m15s", "infinite", "0.5s"}[rng.Intn(12)])
				if rng.Bool(0.5) {
					s.MinInterval = nil
				}
				if rng.Bool(0.7) {
					s.DefaultLifetime = []*string{nil, sp("auto")}[rng.Intn(2)]
				}
			case 0, 1:
				if len(s.Prefixes) == 0 {
					s.Prefixes = append(s.Prefixes, PrefixSpec{Prefix: sp("2001:db8:99::/64")})
				}
				x := &s.Prefixes[rng.Intn(len(s.Prefixes))]
				x.Deprecated = false
				switch rng.Intn(3) {
				case 0:
					x.Valid = pickD()
				case 1:
					x.Preferred = pickD()
				default:
					// both, preferred <= valid made likely by using the same or a lower entry
					i := rng.Intn(len(c03Durations))
					x.Valid = sp(c03Durations[i])
					x.Preferred = sp(c03Durations[rng.Intn(i+1)])
				}
			case 2:
				if len(s.Routes) == 0 {
					s.Routes = append(s.Routes, RouteSpec{Prefix: sp("2001:db8:98::/48")})
				}
				x := &s.Routes[rng.Intn(len(s.Routes))]
				x.Deprecated = false
				x.Lifetime = pickD()
			case 3:
				if len(s.RDNSS) == 0 {
					s.RDNSS = append(s.RDNSS, RDNSSSpec{Servers: []string{"2001:db8:53::1"}})
				}
				s.RDNSS[rng.Intn(len(s.RDNSS))].Lifetime = pickD()
			case 4:
				if len(s.DNSSL) == 0 {
					s.DNSSL = append(s.DNSSL, DNSSLSpec{DomainNames: []string{"example.com"}})
				}
				s.DNSSL[rng.Intn(len(s.DNSSL))].Lifetime = pickD()
			case 5:
				if len(s.PREF64) == 0 {
					s.PREF64 = append(s.PREF64, Pref64Spec{})
				}
				s.PREF64[rng.Intn(len(s.PREF64))].Prefix = sp(c03Pref64[rng.Intn(len(c03Pref64))])
			default:
				switch rng.Intn(3) {
				case 0:
					s.ReachableTime = sp([]string{"-1ms", "1h", "1h0m0.001s", "999us", "1ns", "0.5ms"}[rng.Intn(6)])
				case 1:
					s.RetransmitTimer = sp([]string{"-1ms", "1h", "1h0m0.001s", "999us", "1ns", "0.5ms"}[rng.Intn(6)])
				default:
					s.DefaultLifetime = sp([]string{"-1s", "9000s", "9001s", "65535s", "65536s", "1ns", "0.5s", "infinite"}[rng.Intn(8)])
				}
			}
		}
	}
	if rng.Bool(0.2) {
		// long DNS search lists and names near the limits (well-formed)
		var names []string
		for i, k := 0, rng.Range(1, 12); i < k; i++ {
			lab := strings.Repeat(string(rune('a'+i)), rng.Range(1, 63))
			names = append(names, fmt.Sprintf("%s.n%d.example", lab, i))
		}
		s.DNSSL = append(s.DNSSL, DNSSLSpec{DomainNames: names})
	}

	p.Actions = []Action{rsAction(300*nsMs+jitter(rng), hostAddr(0)), rsAction(700*nsMs+jitter(rng), "::")}
	if rng.Bool(0.3) {
		// Clock-dependent durations: deprecated stanzas whose deadline passes
		// while the daemon runs; RAs before, around and after the deadline.
		p.Class += "+deprecated"
		v := time.Duration(rng.Range(500, 4000)) * time.Millisecond
		q := time.Duration(1 + rng.Int63n(int64(v)))
		dp := PrefixSpec{Prefix: sp("2001:db8:dead::/64"), Deprecated: true, Valid: sp(v.String()), Preferred: sp(q.String())}
		if rng.Bool(0.15) {
			// preferred lifetime left to its default, which exceeds this valid
			// lifetime: documented as rejected; should it ever be accepted, the
			// RA must still mean what was configured
			dp.Preferred = nil
		}
		s.Prefixes = append(s.Prefixes, dp)
		r := time.Duration(rng.Range(500, 4000)) * time.Millisecond
		s.Routes = append(s.Routes, RouteSpec{Prefix: sp("2001:db8:dead::/48"), Deprecated: true, Lifetime: sp(r.String())})
		for _, d := range []time.Duration{v, q, r} {
			p.Actions = append(p.Actions, rsAction(int64(d)+int64(rng.Range(-1, 1))*int64(rng.Dur(0, 200*time.Millisecond)), hostAddr(1)))
		}
		p.Actions = append(p.Actions, rsAction(4300*nsMs+jitter(rng), hostAddr(2)))
	}
	if rng.Bool(0.08) {
		// the wildcard beside static servers, one of which is the very address
		// the wildcard resolves to: RA after RA means the same
		p.Class += "+wildcard-also-static"
		s.RDNSS = append(s.RDNSS, RDNSSSpec{Servers: []string{"2001:db8:53::2", "::", iw.LL, "2001:db8:53::1"}})
		for i := 0; i < 3; i++ {
			p.Actions = append(p.Actions, rsAction(int64(rng.Dur(100*time.Millisecond, 4*time.Second))+jitter(rng), hostAddr(i)))
		}
	} else if rng.Bool(0.1) {
		// a system state in which the :: wildcard has nothing usable to offer
		// (DAD still running, only deprecated/temporary addresses): the daemon may
		// refuse to advertise, but must not put an unusable value on the wire
		p.Class += "+no-eligible-address"
		rd := RDNSSSpec{Servers: []string{"::"}}
		if rng.Bool(0.5) {
			// static servers next to the wildcard do not make an unresolved
			// wildcard any more meaningful
			rd.Servers = []string{"2001:db8:53::2", "::", "2001:db8:53::1"}
		}
		s.RDNSS = append(s.RDNSS, rd)
		if rng.Bool(0.3) {
			// ... or the address listing itself fails for a while
			p.Faults = append(p.Faults, Fault{Seam: "rtnl.addr", From: int64(rng.Dur(100*time.Millisecond, 3*time.Second)), Count: rng.Range(1, 3), Err: []string{"nl.EPERM", "nl.EINVAL", "opaque", "nl.ENODEV"}[rng.Intn(4)]})
		}
		iw.Addrs = []AddrW{{CIDR: iw.LL + "/64", Flags: 0x40}, {CIDR: "2001:db8:c::1/64", Flags: 0x40}, {CIDR: "2001:db8:d::1/64", Flags: 0x20}}
		if rng.Bool(0.5) {
			// ... at first: DAD completes later
			p.Actions = append(p.Actions, Action{At: 2 * nsSec, Kind: "addrs", If: iw.Name, Addrs: pickAddrs(rng, iw.LL, 3)})
			n.Ifaces[0].Down = false
		}
	}
	// whatever is carried from one connection generation into the next must
	// leave the RA encodable and its meaning intact
	if maybeReinit(rng, p, "eth0", 100*nsMs, 4*nsSec, 0.25) {
		p.Actions = append(p.Actions, rsAction(4500*nsMs+jitter(rng), hostAddr(3)))
	}
	p.Horizon = 5 * nsSec
	p.Stop = []string{"SIGTERM", "SIGHUP"}[rng.Intn(2)]
	return p
}

func c03Oracle(info *runInfo, res *verifsim.Result) {
	if info.rejected[0] != "" {
		res.Skipped = "config_rejected"
		return
	}
	if info.plan.Scenario == "clock" {
		c03Clock(info, res)
		return
	}
	h := analyse(info.ev)
	checked := 0
	for _, w := range h.writes {
		if w.marshalErr != "" {
			res.Violate("C03.encode", "encode:"+strings.TrimPrefix(w.marshalErr, "marshal: "), "accepted configuration produced an RA that does not encode (%s to %s at %s): %s\nconfiguration:\n%s",
				w.ifn, w.dst, ms(w.t), w.marshalErr, info.plan.Nodes[0].Config.TOML())
			continue
		}
		if w.ra == nil {
			continue
		}
		checked++
		// encode(decode(bytes)) must give the same bytes again.
		if b2, err := ndp.MarshalMessage(w.ra); err != nil || !bytes.Equal(b2, w.b) {
			res.Violate("C03.roundtrip", "roundtrip", "decode/encode of the transmitted RA is not the identity (err=%v)", err)
		}
		in, why := modelFor(info, h, w)
		if in == nil {
			res.Violate("C03.model", "model", "%s", why)
			continue
		}
		if in.ambiguous {
			continue
		}
		m := expectRA(*in)
		if m.fail != "" {
			if !strings.HasPrefix(m.fail, "model:") {
				res.Violate("C03.meaning", "must-fail", "an RA was emitted (to %s at %s) in a state in which RA generation cannot produce a meaningful value: %s; wire options: %v", w.dst, ms(w.t), m.fail, wireOpts(w.ra))
			}
			continue
		}
		if len(m.unrep) > 0 {
			res.Violate("C03.range", "range:"+unrepKinds(m.unrep), "accepted configuration holds values that cannot be carried by their wire field: %v (RA to %s at %s)",
				m.unrep, w.dst, ms(w.t))
			continue
		}
		if d := diffRA(w.ra, m); d != "" {
			res.Violate("C03.meaning", "meaning:"+firstWord(d), "decoded RA differs from the configured meaning: %s\nconfiguration:\n%s", d, info.plan.Nodes[0].Config.TOML())
		}
	}
	res.Nontrivial = checked >= 1
}

// c03Clock: RAs built under a clock that advances between two readings. A
// deprecated lifetime is a time remaining: never more than what was configured,
// whatever the readings (a negative duration shows up as ~2^32 on the wire).
func c03Clock(info *runInfo, res *verifsim.Result) {
	spec := &info.plan.Nodes[0].Config.Interfaces[0]
	n := 0
	for i := range info.ev {
		e := &info.ev[i]
		if e.K != "clock.build" {
			continue
		}
		if e.Err != "" {
			res.Violate("C03.encode", "encode:"+strings.TrimPrefix(e.Err, "marshal: "), "RA generation failed at clock reading %s: %s", time.Duration(e.V), e.Err)
			continue
		}
		ra := parseRA(e.B)
		n++
		if e.V < 0 {
			continue // a reading before the daemon's start (clock set back): more than configured remains
		}
		for _, o := range ra.Options {
			switch o := o.(type) {
			case *ndp.PrefixInformation:
				for _, ps := range spec.Prefixes {
					if !ps.Deprecated || ps.Prefix == nil || *ps.Prefix != netip.PrefixFrom(o.Prefix, int(o.PrefixLength)).String() {
						continue
					}
					v, _ := dparse(ps.Valid, 24*time.Hour)
					q, _ := dparse(ps.Preferred, 4*time.Hour)
					if o.ValidLifetime > v || o.PreferredLifetime > q {
						res.Violate("C03.meaning", "meaning:deprecated-exceeds", "clock reading epoch%+v (+%s within the build): deprecated prefix %s advertises valid=%s preferred=%s, more than the configured %s / %s",
							time.Duration(e.V), time.Duration(e.Ref), *ps.Prefix, o.ValidLifetime, o.PreferredLifetime, v, q)
					}
				}
			case *ndp.RouteInformation:
				for _, rs := range spec.Routes {
					if !rs.Deprecated || rs.Prefix == nil || *rs.Prefix != netip.PrefixFrom(o.Prefix, int(o.PrefixLength)).String() {
						continue
					}
					v, _ := dparse(rs.Lifetime, 24*time.Hour)
					if o.RouteLifetime > v {
						res.Violate("C03.meaning", "meaning:deprecated-exceeds", "clock reading epoch%+v (+%s within the build): deprecated route %s advertises lifetime=%s, more than the configured %s",
							time.Duration(e.V), time.Duration(e.Ref), *rs.Prefix, o.RouteLifetime, v)
					}
				}
			}
		}
	}
	res.Nontrivial = n >= 2
}

// unrepKinds reduces the list of unrepresentable values to the key names.
func unrepKinds(u []string) string {
	seen := map[string]bool{}
	var out []string
	if len(u) > 1 {
		u = u[:1]
	}
	for _, s := range u {
		k := s
		if i := strings.IndexAny(k, "=["); i > 0 {
			k = k[:i]
		}
		// prefix[0].valid_lifetime -> prefix.valid_lifetime
		if j := strings.Index(s, "]."); j > 0 {
			k += s[j+1 : strings.IndexByte(s, '=')]
		}
		if !seen[k] {
			seen[k] = true
			out = append(out, k)
		}
	}
	return strings.Join(out, ",")
}

func firstWord(s string) string {
	if i := strings.IndexAny(s, ": "); i > 0 {
		return s[:i]
	}
	return s
}

func init() {
	register("C03", nil, c03Gen, c03Oracle)
}
