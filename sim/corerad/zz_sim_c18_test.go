package corerad

// C18 — monitor metrics describe every received message exactly.

import (
	"fmt"
	"sort"
	"strings"
	"time"

	"github.com/mdlayher/corerad/internal/verifsim"
	"github.com/mdlayher/ndp"
)

func genPeerRA(rng *verifsim.RNG, rich bool) *RASpec {
	ra := &RASpec{
		Hop: rng.Intn(256), M: rng.Bool(0.5), O: rng.Bool(0.5), Pref: []string{"low", "medium", "high"}[rng.Intn(3)],
		Lifetime: []int{0, 0, 1, 1800, 9000, 65535, rng.Intn(65536)}[rng.Intn(7)],
		Reach:    int64(rng.Intn(3600000)), Retrans: int64(rng.Intn(3600000)),
	}
	n := rng.Range(0, 6)
	if !rich {
		n = rng.Range(0, 2)
	}
	life := func() uint32 {
		switch rng.Intn(5) {
		case 0:
			return 0
		case 1:
			return 0xffffffff
		case 2:
			return uint32(rng.Intn(100))
		}
		return uint32(rng.Intn(10000000))
	}
	for i := 0; i < n; i++ {
		switch rng.Pick(6, 1, 1, 1, 1, 1, 1) {
		case 0:
			bits := []int{64, 64, 48, 56, 96, 128, 0}[rng.Intn(7)]
			base := []string{"2001:db8:1::", "2001:db8:2::", "fd00:1::", "2001:db8:1::", "::"}[rng.Intn(5)]
			ra.Opts = append(ra.Opts, OptSpec{Kind: "prefix", Prefix: fmt.Sprintf("%s/%d", base, bits), OnLink: rng.Bool(0.5), Auto: rng.Bool(0.5), Valid: life(), Pref: life()})
		case 1:
			ra.Opts = append(ra.Opts, OptSpec{Kind: "route", Prefix: "2001:db8:ff::/48", RPref: "medium", Life: life()})
		case 2:
			ra.Opts = append(ra.Opts, OptSpec{Kind: "rdnss", Servers: []string{"2001:db8::53"}, Life: life()})
		case 3:
			ra.Opts = append(ra.Opts, OptSpec{Kind: "mtu", MTU: uint32(1280 + rng.Intn(8000))})
		case 4:
			ra.Opts = append(ra.Opts, OptSpec{Kind: "slla", MAC: "02:00:00:00:00:aa"})
		case 5:
			ra.Opts = append(ra.Opts, OptSpec{Kind: "raw", Type: 200 + rng.Intn(50), Raw: make([]byte, 6)})
		default:
			ra.Opts = append(ra.Opts, OptSpec{Kind: "dnssl", Domains: []string{"example.com"}, Life: life()})
		}
	}
	return ra
}

func c18Gen(rng *verifsim.RNG, idx int, tier string) *Plan {
	p := oneMonitor(rng)
	p.Nodes[0].Config.Interfaces[0].Verbose = rng.Bool(0.3)
	p.Nodes[0].Metrics = []string{"prom", "mem"}[rng.Intn(2)]
	p.Class = "exact"
	senders := []string{"fe80::1", "fe80::2", "2001:db8::1", "fe80::dead:beef"}[:rng.Range(1, 4)]
	t := int64(0)
	n := rng.Range(1, 25)
	for i := 0; i < n; i++ {
		t += int64(rng.Dur(0, 3*time.Second))
		if rng.Bool(0.3) {
			t = t/nsSec*nsSec + int64(rng.Intn(3)-1) // on / next to a whole second
			if t < 0 {
				t = 0
			}
		}
		a := Action{At: t + 1, If: "eth0", Src: senders[rng.Intn(len(senders))]}
		switch rng.Pick(7, 1, 1, 1) {
		case 0:
			a.Kind, a.RA = "ra", genPeerRA(rng, true)
		case 1:
			a.Kind = "rs"
		case 2:
			a.Kind = "ns"
		default:
			a.Kind = "na"
		}
		if rng.Bool(0.1) {
			a.N = rng.Range(2, 3) // duplicated on the link: every copy counts
		}
		if rng.Bool(0.05) {
			a.Hop = ip(rng.Intn(255)) // an invalid one in between
		}
		if a.Kind == "ra" && rng.Bool(0.1) {
			// a different RA of the same router in the socket right behind this one
			t := Action{At: a.At, If: "eth0", Src: a.Src, Kind: "ra", RA: genPeerRA(rng, true)}
			a.Then = &t
		}
		p.Actions = append(p.Actions, a)
	}
	if rng.Bool(0.3) {
		// the connection is re-established in between (link down): the monitor
		// must go on describing what arrives on the new one
		p.Class = "reinit"
		for i, k := 0, rng.Range(1, 2); i < k; i++ {
			p.Actions = append(p.Actions, Action{At: rng.Int63n(t+1) + 500, Kind: "link", If: "eth0", Oper: "down"})
		}
	}
	if rng.Bool(0.2) {
		p.Faults = append(p.Faults, Fault{Seam: "read.post", From: rng.Int63n(t + 1), Count: rng.Range(1, 4), Lat: int64(rng.Dur(time.Millisecond, 1500*time.Millisecond))})
		p.Class += "+slow-receive"
	}
	if rng.Bool(0.2) {
		// isolated receive timeouts scattered between the messages (never five
		// in a row): each receive has its own retry budget
		k := rng.Range(5, 9)
		at := 1
		for i := 0; i < k; i++ {
			at += rng.Range(2, 3)
			p.Faults = append(p.Faults, Fault{Seam: "read", Err: "timeout", N: at})
		}
		p.Class += "+timeouts"
	}
	if !strings.Contains(p.Class, "+timeouts") && rng.Bool(0.15) {
		// a receive fails for a transient reason (no buffers, network down) with
		// no link event to go with it: the monitor takes a new connection and
		// goes on describing what arrives
		p.Faults = append(p.Faults, Fault{Seam: "read", From: rng.Int63n(t + 1), Count: 1, Err: []string{"ENOBUFS", "ENETDOWN"}[rng.Intn(2)]})
		p.Class += "+receive-error"
	} else if !strings.Contains(p.Class, "+timeouts") && rng.Bool(0.15) {
		// ... or a run of reads interrupted or refused for lack of descriptors
		// (EINTR, EMFILE: "temporary" as the net package sees it, but not
		// timeouts): as many as it takes, the monitor never fails
		p.Faults = append(p.Faults, Fault{Seam: "read", From: rng.Int63n(t + 1), Count: rng.Range(2, 9), Err: []string{"EINTR", "EMFILE"}[rng.Intn(2)]})
		p.Class += "+receive-errors-in-a-row"
	}
	if rng.Bool(0.3) {
		// the monitor's clock has moved on every time it is read (by a third to
		// two thirds of a second): one message has one receipt time all the same
		if p.Opt == nil {
			p.Opt = map[string]int64{}
		}
		p.Opt["monitor_clock_step"] = int64(rng.Dur(300*time.Millisecond, 700*time.Millisecond))
		p.Class += "+moving-clock"
	}
	p.Horizon = t + 2*nsSec
	return p
}

func c18Oracle(info *runInfo, res *verifsim.Result) {
	if info.rejected[0] != "" {
		res.Skipped = "config_rejected"
		return
	}
	h := analyse(info.ev)
	ifn := info.plan.Nodes[0].Config.Interfaces[0].Name
	_, stopSeq, _ := stopInstant(h, 0)

	bySeq := map[int]*rx{}
	for _, g := range h.gens {
		for _, r := range g.rxs {
			bySeq[r.seq] = r
		}
	}
	unix := func(tNs int64, add time.Duration) int64 {
		return time.Unix(0, info.startUnixNs+tNs).Add(add).Unix()
	}
	b2f := func(b bool) int64 {
		if b {
			return 1
		}
		return 0
	}

	wantFor := func(r *rx, host, typ string, at int64) []string {
		var want []string
		want = append(want, fmt.Sprintf("counter corerad_monitor_messages_received_total{interface=%s,host=%s,message=%s} 1", ifn, host, typ))
		if ra, ok := r.msg.(*ndp.RouterAdvertisement); ok {
			want = append(want,
				fmt.Sprintf("gauge corerad_monitor_flag_managed{interface=%s,router=%s} %d", ifn, host, b2f(ra.ManagedConfiguration)),
				fmt.Sprintf("gauge corerad_monitor_flag_other{interface=%s,router=%s} %d", ifn, host, b2f(ra.OtherConfiguration)))
			if ra.RouterLifetime != 0 {
				want = append(want, fmt.Sprintf("gauge corerad_monitor_default_route_expiration_timestamp_seconds{interface=%s,router=%s} %d", ifn, host, unix(at, ra.RouterLifetime)))
			} else {
				res.Probe("ra_lifetime_zero")
			}
			for _, o := range ra.Options {
				pi, ok := o.(*ndp.PrefixInformation)
				if !ok {
					continue
				}
				res.Probe("prefix_option")
				lab := fmt.Sprintf("{interface=%s,prefix=%s/%d,router=%s}", ifn, pi.Prefix, pi.PrefixLength, host)
				want = append(want,
					fmt.Sprintf("gauge corerad_monitor_prefix_autonomous%s %d", lab, b2f(pi.AutonomousAddressConfiguration)),
					fmt.Sprintf("gauge corerad_monitor_prefix_on_link%s %d", lab, b2f(pi.OnLink)),
					fmt.Sprintf("gauge corerad_monitor_prefix_preferred_expiration_timestamp_seconds%s %d", lab, unix(at, pi.PreferredLifetime)),
					fmt.Sprintf("gauge corerad_monitor_prefix_valid_expiration_timestamp_seconds%s %d", lab, unix(at, pi.ValidLifetime)))
			}
		}
		return want
	}
	var clockReads []int64
	var cur *rx
	curG := 0
	var got []string
	sawCallback := false
	nRA := 0
	flush := func() {
		if cur == nil {
			return
		}
		r := cur
		cur = nil
		if r.hop != 255 {
			return // invalid: C09's business
		}
		host := r.src.String()
		typ := r.msg.Type().String()
		if _, ok := r.msg.(*ndp.RouterAdvertisement); ok {
			nRA++
		}
		// the receipt time is one instant: with a clock that moves on every
		// reading, any ONE of the readings made while the message was handled
		// (all expiries from the same one); with the fake clock, the instant the
		// receive returned
		cands := append([]int64(nil), clockReads...)
		if len(cands) == 0 {
			cands = []int64{r.t}
		} else {
			res.Probe("monitor_clock_moves_on_every_reading")
		}
		g2 := append([]string(nil), got...)
		sort.Strings(g2)
		var want []string
		for _, c := range cands {
			want = wantFor(r, host, typ, c)
			sort.Strings(want)
			if strings.Join(want, "\n") == strings.Join(g2, "\n") {
				break
			}
		}
		if strings.Join(want, "\n") != strings.Join(g2, "\n") {
			rule, sig := "C18.prefix", "metrics"
			if len(g2) > 0 && len(want) > 0 && g2[0] != want[0] && strings.HasPrefix(want[0], "counter") {
				rule, sig = "C18.count", "count"
			}
			for _, s := range g2 {
				if strings.Contains(s, "%") {
					rule, sig = "C18.zone", "zone"
				}
			}
			res.Violate(rule, sig, "%s: %s from %s received at %s: metric updates differ\n  got:  %s\n  want: %s", ifn, typ, host, ms(r.t), strings.Join(diffLists(g2, want), "; "), strings.Join(diffLists(want, g2), "; "))
		}
		if !sawCallback {
			res.Violate("C18.fail", "callback", "%s: %s from %s received at %s was not reported to the message callback", ifn, typ, host, ms(r.t))
		}
	}
	for i := range h.ev {
		e := &h.ev[i]
		if e.K == "read.exit" && e.Err == "" && e.If == ifn {
			flush()
			cur, curG, got, sawCallback = bySeq[e.Seq], e.G, nil, false
			clockReads = nil
			continue
		}
		if cur == nil || e.G != curG {
			continue
		}
		switch e.K {
		case "read.enter":
			flush()
		case "counter", "gauge":
			// (the families the statement names; others a monitor may also keep
			// are not this property's business)
			if c18Family(e.S) {
				v := e.V / 1e6
				got = append(got, fmt.Sprintf("%s %s %d", e.K, e.S, v))
			}
		case "onmessage":
			sawCallback = true
		case "mon.now":
			clockReads = append(clockReads, e.V)
		}
	}
	flush()
	// Five receive timeouts without a valid message between them exhaust the
	// documented retry budget of one receive (ignored invalid messages do not
	// start a new receive): the monitor then ends, as documented.
	exhausted := false
	for run, i := 0, 0; i < len(h.ev); i++ {
		e := &h.ev[i]
		if e.K != "read.exit" || e.If != ifn {
			continue
		}
		switch {
		case e.Err == "timeout":
			if run++; run >= 5 {
				exhausted = true
			}
		case e.Err == "" && e.V == 255:
			run = 0
		}
	}
	for i := range h.ev {
		e := &h.ev[i]
		if e.K == "task.exit" && taskIface(e.S) == ifn && (stopSeq == 0 || e.Seq < stopSeq) {
			if exhausted && strings.Contains(e.Err, "exhausted receive retries") {
				res.Probe("retry_budget_exhausted")
				res.Nontrivial = nRA >= 1
				return
			}
			res.Violate("C18.fail", "stopped", "%s: monitor ended at %s: %s", ifn, ms(e.T), e.Err)
		}
	}
	stopT0, _, _ := stopInstant(h, 0)
	h.unreadDeliveries(ifn, stopT0, func() { res.Probe("connection_given_up_while_listener_busy") }, func(g *generation, delivered int, cutT int64) {
		res.Violate("C18.fail", "unhandled", "%s gen %d: %d messages were delivered to the monitoring socket before %s but only %d were ever read and described", ifn, g.gen, delivered, ms(cutT), len(g.rxs))
	})
	if len(h.gens) > 1 {
		res.Probe("reinitialised")
	}
	res.Nontrivial = nRA >= 1
}

// diffLists returns the elements of a that are not in b (multiset difference).
func diffLists(a, b []string) []string {
	m := map[string]int{}
	for _, s := range b {
		m[s]++
	}
	var out []string
	for _, s := range a {
		if m[s] > 0 {
			m[s]--
		} else {
			out = append(out, s)
		}
	}
	return out
}

func init() {
	register("C18", nil, c18Gen, c18Oracle)
}

// c18Family reports whether a metric sample belongs to one of the monitor
// families C18 speaks about.
func c18Family(sample string) bool {
	name := sample
	if i := strings.IndexByte(name, '{'); i >= 0 {
		name = name[:i]
	}
	switch name {
	case "corerad_monitor_messages_received_total",
		"corerad_monitor_flag_managed", "corerad_monitor_flag_other",
		"corerad_monitor_default_route_expiration_timestamp_seconds",
		"corerad_monitor_prefix_autonomous", "corerad_monitor_prefix_on_link",
		"corerad_monitor_prefix_preferred_expiration_timestamp_seconds",
		"corerad_monitor_prefix_valid_expiration_timestamp_seconds":
		return true
	}
	return false
}
