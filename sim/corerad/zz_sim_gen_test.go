package corerad

// Plan generation helpers shared by the per-property generators.

import (
	"fmt"
	"time"

	"github.com/mdlayher/corerad/internal/verifsim"
	"golang.org/x/sys/unix"
)

const (
	nsMs  = int64(time.Millisecond)
	nsSec = int64(time.Second)
)

// advIface returns a plain advertising interface: eth<k>, MAC, link-local
// address, forwarding on.
func advIface(k int) (IfaceSpec, IfaceW) {
	name := fmt.Sprintf("eth%d", k)
	return IfaceSpec{Name: name, Advertise: true},
		IfaceW{
			Name:  name,
			Index: 2 + k,
			MAC:   fmt.Sprintf("02:00:00:00:00:%02x", 0x10+k),
			LL:    fmt.Sprintf("fe80::%x", 0x10+k),
			Fwd:   true,
			Auto:  true,
			Addrs: []AddrW{{CIDR: fmt.Sprintf("fe80::%x/64", 0x10+k), Flags: unix.IFA_F_PERMANENT, Forever: true}},
		}
}

// oneAdvertiser is a plan skeleton with a single advertising interface.
func oneAdvertiser(rng *verifsim.RNG) *Plan {
	is, iw := advIface(0)
	var cs uint64
	if rng.Bool(0.7) {
		cs = rng.U64()>>1 | 1
	}
	return &Plan{
		Offset: rng.Int63n(int64(time.Hour)),
		Cancel: cs,
		Nodes: []NodeSpec{{
			Config: ConfigSpec{Interfaces: []IfaceSpec{is}},
			Ifaces: []IfaceW{iw},
		}},
	}
}

// maybeReinit adds link-down events on an interface with probability prob: the
// connection is torn down and re-established (a new dial generation) while the
// scenario goes on. State carried from one generation into the next is a
// classic hiding place.
func maybeReinit(rng *verifsim.RNG, p *Plan, ifn string, from, to int64, prob float64) bool {
	if !rng.Bool(prob) || to <= from {
		return false
	}
	for i, k := 0, rng.Range(1, 2); i < k; i++ {
		at := from + rng.Int63n(to-from) + jitter(rng)
		if rng.Bool(0.4) {
			// the interface was re-created: it comes back under a new index
			a := Action{At: at - 50, Kind: "reindex", If: ifn, N: 100 + rng.Intn(800)}
			if rng.Bool(0.5) {
				a.Addrs = []AddrW{{CIDR: "2001:db8:ffff::1/64"}, {CIDR: "fd00:ffff::1/64", Forever: true}}
			}
			p.Actions = append(p.Actions, a)
		}
		p.Actions = append(p.Actions, Action{At: at, Kind: "link", If: ifn, Oper: "down"})
	}
	p.Class += "+reinit"
	return true
}

// secondInterface adds another advertising interface (eth1) with the same
// settings and a time-shifted copy of the packet traffic of eth0: what happens on
// one interface must not leak into the other.
func secondInterface(rng *verifsim.RNG, p *Plan) {
	n := &p.Nodes[0]
	is, iw := advIface(1)
	if c := &n.Config.Interfaces[0]; len(n.Config.Interfaces) == 1 && c.Name != "" && rng.Bool(0.5) {
		// one stanza for both: names = ["eth0", "eth1"]
		c.Names, c.Name = []string{c.Name, is.Name}, ""
	} else {
		src := n.Config.Interfaces[0]
		src.Name = is.Name
		n.Config.Interfaces = append(n.Config.Interfaces, src)
	}
	n.Ifaces = append(n.Ifaces, iw)
	shift := int64(rng.Dur(0, 2*time.Second)) + 7
	var extra []Action
	for _, a := range p.Actions {
		if a.If == "eth0" && (a.Kind == "rs" || a.Kind == "ra") && rng.Bool(0.7) {
			b := a
			b.If = "eth1"
			b.At += shift
			extra = append(extra, b)
		}
	}
	p.Actions = append(p.Actions, extra...)
	p.Class += "+2if"
}

// monitorStanzaAnywhere moves the monitoring-only stanza (generators append it
// last) to a random position of the configured list half of the time: per-
// interface results must not depend on where in the list an interface that
// advertises nothing stands. The simulated interfaces keep their order.
func monitorStanzaAnywhere(rng *verifsim.RNG, p *Plan) {
	is := p.Nodes[0].Config.Interfaces
	n := len(is)
	if n < 2 || !is[n-1].Monitor || is[n-1].Advertise || !rng.Bool(0.5) {
		return
	}
	m := is[n-1]
	at := rng.Intn(n - 1)
	copy(is[at+1:], is[at:n-1])
	is[at] = m
	p.Class += "+monitor-listed-first"
}

func dur(ns int64) string { return time.Duration(ns).String() }

// jitter returns an odd sub-microsecond offset so that driver actions do not
// tie with daemon timers unless a generator wants them to.
func jitter(rng *verifsim.RNG) int64 { return int64(rng.Intn(900))*2 + 101 }

// hostAddr returns the k-th simulated host's address: link-local for even k,
// global for odd k.
func hostAddr(k int) string {
	if k%2 == 0 {
		return fmt.Sprintf("fe80::a:%x", k+1)
	}
	return fmt.Sprintf("2001:db8:1::%x", k+1)
}

func rsAction(at int64, src string) Action {
	return Action{At: at, Kind: "rs", If: "eth0", Src: src}
}

// combos enumerates the idx-th non-decreasing sequence of length <= maxLen over
// n grid points (lengths ascending), returning nil,false when idx is past the end.
func combos(idx, n, maxLen int) ([]int, bool) {
	for l := 0; l <= maxLen; l++ {
		c := multichoose(n, l)
		if idx < c {
			// unrank the idx-th non-decreasing sequence of length l
			seq := make([]int, 0, l)
			lo := 0
			for pos := 0; pos < l; pos++ {
				for v := lo; v < n; v++ {
					// sequences starting with v at this position: multichoose(n-v, l-pos-1)
					cnt := multichoose(n-v, l-pos-1)
					if idx < cnt {
						seq = append(seq, v)
						lo = v
						break
					}
					idx -= cnt
				}
			}
			return seq, true
		}
		idx -= c
	}
	return nil, false
}

func multichoose(n, k int) int {
	// C(n+k-1, k)
	if k == 0 {
		return 1
	}
	if n <= 0 {
		return 0
	}
	r := 1
	for i := 1; i <= k; i++ {
		r = r * (n + k - i) / i
	}
	return r
}

func combosTotal(n, maxLen int) int {
	t := 0
	for l := 0; l <= maxLen; l++ {
		t += multichoose(n, l)
	}
	return t
}

// biasQueueFull makes a run favour the state "the advertiser's listener has
// filled the request queue and waits for room, the scheduler has not run
// since": the scheduler steps back at every select, the listener never does
// at its send.
func biasQueueFull(rng *verifsim.RNG, p *Plan) {
	if rng.Bool(0.6) {
		p.Sched = rng.U64() | 1
		p.Bias = map[string]uint64{"": uint64(rng.Intn(2)), "select@advertise.go": 3, "send@advertise.go": 0, "loop@listener.go": 0}
	}
}
