package corerad

// C01 — every RA carries exactly what the configuration calls for.
// Also home of the content rule shared with C03/C04/C07/C08/C13-C16.

import (
	"sort"
	"fmt"
	"strings"
	"time"

	"github.com/mdlayher/corerad/internal/verifsim"
)

// modelFor assembles the model input of one transmitted RA.
func modelFor(info *runInfo, h *history, w *write) (*modelIn, string) {
	spec := info.plan.Nodes[w.node].Config.ifaceSpecFor(w.ifn)
	if spec == nil {
		return nil, "no configuration for interface"
	}
	if w.build == nil {
		// The RA was generated without asking the system for the forwarding
		// state (a cached value?): judge it by what the system would have said.
		w.build = &build{g: w.g, node: w.node, ifn: w.ifn, seq: w.seq, t1: w.t, t2: w.t, fwd: worldFwdAt(info, w.node, w.ifn, w.seq)}
		// ... and, likewise, by the address table the system held then (as many
		// listings of it as any configuration can ask for)
		tab := worldAddrsAt(info, w.node, w.ifn, w.seq)
		for i := 0; i < 16; i++ {
			w.build.addr = append(w.build.addr, tab)
		}
	}
	if w.build.fwdErr != "" {
		// The forwarding read of this build failed and an RA went out anyway:
		// judge it by what the system would have said.
		w.build.fwd = worldFwdAt(info, w.node, w.ifn, w.seq)
	}
	g := h.byKey[genKey(w.node, w.ifn, w.gen)]
	nLoop := len(info.plan.LoopIdx)
	if nLoop == 0 {
		nLoop = 1
	}
	in := &modelIn{
		spec: spec, fwd: w.build.fwd, addr: w.build.addr, routes: w.build.routes, nLoop: nLoop,
		epoch: info.epochs[w.node], t1: w.build.t1, t2: w.build.t2,
	}
	if g != nil {
		in.mac = g.mac
	}
	if b := w.build; b.helpers {
		// Plugins applied side by side: the order in which their listings
		// reached the kernel says nothing about which stanza made which. If they
		// all saw the same tables it does not matter (route listings are put
		// back into stanza order); if not, this RA is not judged.
		first, seen := "", false
		for _, a := range b.addr {
			if strings.HasPrefix(a, "!") {
				continue
			}
			if !seen {
				first, seen = a, true
			} else if a != first {
				in.ambiguous = true
			}
		}
		byIdx := map[int][]string{}
		var idxs []int
		for i, r := range b.routes {
			ix := 0
			if i < len(b.routeIdx) {
				ix = b.routeIdx[i]
			}
			if _, ok := byIdx[ix]; !ok {
				idxs = append(idxs, ix)
			}
			byIdx[ix] = append(byIdx[ix], r)
		}
		sort.Ints(idxs)
		if len(info.plan.LoopIdx) > 0 {
			idxs = append([]int(nil), info.plan.LoopIdx...)
		}
		for _, l := range byIdx {
			f, seen := "", false
			for _, r := range l {
				if strings.HasPrefix(r, "!") {
					in.ambiguous = true // which stanza's listing failed?
				} else if !seen {
					f, seen = r, true
				} else if r != f {
					in.ambiguous = true
				}
			}
		}
		var rs []string
		for k := 0; ; k++ {
			any := false
			for _, ix := range idxs {
				if k < len(byIdx[ix]) {
					rs = append(rs, byIdx[ix][k])
					any = true
				}
			}
			if !any {
				break
			}
		}
		in.routes = rs
	}
	// The terminating RA: multicast, after a terminating stop signal, lifetime 0.
	_, stopSeq, sig := stopInstant(h, w.node)
	if stopSeq != 0 && w.seq > stopSeq && sig != "SIGHUP" && w.mc() && w.ra != nil && w.ra.RouterLifetime == 0 {
		in.final = true
	}
	return in, ""
}

// contentRule compares one transmitted RA with the model. It returns the
// difference ("" = equal) and the model output.
func contentRule(info *runInfo, h *history, w *write) (string, *modelOut) {
	if w.marshalErr != "" {
		return "RA failed to encode: " + w.marshalErr, nil
	}
	if w.ra == nil {
		return "transmitted bytes do not decode as a router advertisement", nil
	}
	in, why := modelFor(info, h, w)
	if in == nil {
		return why, nil
	}
	if in.ambiguous {
		return "", nil
	}
	for i, from := range w.build.addrIf {
		if g := h.byKey[genKey(w.node, w.ifn, w.gen)]; g != nil && g.index != 0 && w.build.addrIdx[i] != g.index {
			return fmt.Sprintf("address listing #%d of this build was taken from %s, not from %s (stale interface index?)", i, from, w.ifn), nil
		}
	}
	m := expectRA(*in)
	if m.fail != "" {
		return "an RA was transmitted although RA generation must fail: " + m.fail, m
	}
	if in.final {
		// All other content must equal the normal RA: the model of the normal RA
		// with lifetime 0 (notFwd report is don't-care here).
	}
	return diffRA(w.ra, m), m
}

func c01Gen(rng *verifsim.RNG, idx int, tier string) *Plan {
	p := oneAdvertiser(rng)
	n := &p.Nodes[0]
	// 1-3 interfaces, sometimes grouped under names=[...].
	nif := rng.Pick(6, 3, 1) + 1
	n.Config.Interfaces, n.Ifaces = nil, nil
	o := cfgOpts{frac: rng.Bool(0.4), wildcards: rng.Bool(0.6), deprecated: rng.Bool(0.4), intervals: rng.Bool(0.7)}
	p.Class = "exact"
	if o.frac {
		p.Class = "sub-unit-durations"
	}
	var specs []IfaceSpec
	for k := 0; k < nif; k++ {
		is, iw := advIface(k)
		if rng.Bool(0.15) {
			iw.MAC = ""
		}
		iw.Fwd = rng.Bool(0.8)
		iw.Addrs = pickAddrs(rng, iw.LL, 6)
		n.Ifaces = append(n.Ifaces, iw)
		if k > 0 && rng.Bool(0.3) {
			// join the previous stanza as a names group
			prev := &specs[len(specs)-1]
			if prev.Name != "" {
				prev.Names = []string{prev.Name}
				prev.Name = ""
			}
			prev.Names = append(prev.Names, is.Name)
			continue
		}
		genIfaceSpec(rng, &is, o)
		specs = append(specs, is)
	}
	n.Config.Interfaces = specs
	n.Config.Shuffle = rng.U64() | 1
	p.Loop = pickRoutes(rng, 5, rng.Bool(0.1))
	if rng.Bool(0.2) {
		p.LoopIdx = []int{1, 90}
	}

	horizon := rng.Dur(5*time.Second, 120*time.Second)
	if rng.Bool(0.1) {
		horizon = rng.Dur(10*time.Minute, 3*time.Hour)
	}
	if rng.Bool(0.12) {
		// the address (or loopback route) listing fails now and then: whatever
		// needs it is not built, nothing goes out with the options left out
		seam := []string{"rtnl.addr", "rtnl.addr", "rtnl.route"}[rng.Intn(3)]
		p.Faults = append(p.Faults, Fault{Seam: seam, From: int64(rng.Dur(0, horizon)), Count: rng.Range(1, 3), Err: []string{"nl.EPERM", "nl.EINVAL", "opaque", "nl.ENODEV"}[rng.Intn(4)]})
		p.Class += "+failing-listing"
	}

	p.Horizon = int64(horizon)
	p.Stop = []string{"SIGTERM", "SIGINT", "SIGHUP"}[rng.Intn(3)]

	// World dynamics and triggers.
	na := rng.Range(0, 25)
	for i := 0; i < na; i++ {
		at := int64(rng.Dur(0, horizon)) + jitter(rng)
		iw := n.Ifaces[rng.Intn(len(n.Ifaces))]
		switch rng.Pick(8, 2, 2, 2, 1, 1, 2) {
		case 0:
			src := hostAddr(rng.Intn(5))
			if rng.Bool(0.2) {
				src = "::"
			}
			a := rsAction(at, src)
			a.If = iw.Name
			p.Actions = append(p.Actions, a)
		case 1:
			as := pickAddrs(rng, iw.LL, 6)
			if rng.Bool(0.12) {
				// every address is there but none is usable for a while (duplicate
				// address detection after a flush, only temporary or deprecated ones
				// left): wildcards have nothing to offer, which is not "nothing to say"
				for j := range as {
					as[j].Flags |= []uint32{0x40, 0x20, 0x01}[rng.Intn(3)]
				}
				p.Actions = append(p.Actions, Action{At: at + int64(rng.Dur(200*time.Millisecond, 5*time.Second)), Kind: "addrs", If: iw.Name, Addrs: pickAddrs(rng, iw.LL, 6)})
			}
			p.Actions = append(p.Actions, Action{At: at, Kind: "addrs", If: iw.Name, Addrs: as})
		case 2:
			p.Actions = append(p.Actions, Action{At: at, Kind: "routes", Routes: pickRoutes(rng, 5, rng.Bool(0.1))})
		case 3:
			p.Actions = append(p.Actions, Action{At: at, Kind: "fwd", If: iw.Name, On: rng.Bool(0.5)})
		case 4:
			mac := ""
			if rng.Bool(0.7) {
				mac = fmt.Sprintf("02:00:00:00:01:%02x", rng.Intn(256))
			}
			p.Actions = append(p.Actions, Action{At: at, Kind: "mac", If: iw.Name, MAC: mac})
		case 5:
			p.Actions = append(p.Actions, Action{At: at, Kind: "link", If: iw.Name, Oper: "down"})
		case 6:
			// a neighbouring router says what we say (our latest multicast RA,
			// from another address): checking it must leave our own RAs alone
			p.Actions = append(p.Actions, Action{At: at, Kind: "echo", If: iw.Name, Src: "fe80::ec:0"})
		}
	}
	if rng.Bool(0.12) {
		// An RA build whose address dump has been answered by the kernel but is
		// slow to arrive; the addresses change; another RA is asked for and built
		// meanwhile. Each is made from a listing of its own.
		iw := n.Ifaces[rng.Intn(len(n.Ifaces))]
		t0 := int64(rng.Dur(time.Second, horizon/2)) + 222
		p.Faults = append(p.Faults, Fault{Seam: "rtnl.addr", If: iw.Name, From: t0, Count: 1, Hold: "hl", Mode: "sampled"})
		a, b := rsAction(t0+1000, hostAddr(0)), rsAction(t0+650*nsMs, hostAddr(1))
		a.If, b.If = iw.Name, iw.Name
		p.Actions = append(p.Actions, a,
			Action{At: t0 + 600*nsMs, Kind: "addrs", If: iw.Name, Addrs: pickAddrs(rng, iw.LL, 6)},
			b,
			Action{At: t0 + 1300*nsMs, Kind: "release", Hold: "hl"})
	}
	// The OS lists in any order and may repeat itself: not a fault.
	if rng.Bool(0.5) {
		p.Faults = append(p.Faults, Fault{Seam: "rtnl.addr", Count: -1, Mode: "perm", Arg: int64(rng.Intn(1000))})
	}
	if rng.Bool(0.5) {
		p.Faults = append(p.Faults, Fault{Seam: "rtnl.route", Count: -1, Mode: []string{"perm", "dup"}[rng.Intn(2)], Arg: int64(rng.Intn(1000))})
	}
	return p
}

func c01Oracle(info *runInfo, res *verifsim.Result) {
	if info.rejected[0] != "" {
		res.Skipped = "config_rejected"
		res.Probe("config_rejected")
		return
	}
	h := analyse(info.ev)
	checked := 0
	kinds := map[string]bool{}
	for _, w := range h.writes {
		if w.err != "" && w.marshalErr == "" {
			continue
		}
		d, m := contentRule(info, h, w)
		checked++
		if m != nil {
			for _, o := range m.opts {
				kinds[strings.SplitN(o.fixed, " ", 2)[0]] = true
			}
			if len(m.unrep) > 0 {
				// Outside C01's population (C03 judges representability).
				res.Probe("unrepresentable_value")
				continue
			}
		}
		if d != "" {
			res.Violate("C01.content", "content", "%s gen %d RA #%d to %s at %s: %s", w.ifn, w.gen, w.seq, w.dst, ms(w.t), d)
		}
	}
	res.Nontrivial = checked >= 2 && len(kinds) >= 1
	if len(h.gens) > len(info.plan.Nodes[0].Ifaces) {
		res.Probe("reinitialised")
	}
	for k := range kinds {
		res.Probe("opt_" + k)
	}
}

func init() {
	register("C01", nil, c01Gen, c01Oracle)
}

// worldFwdAt returns the interface's forwarding sysctl as of event seq.
func worldFwdAt(info *runInfo, node int, ifn string, seq int) bool {
	v := false
	for _, iw := range info.plan.Nodes[node].Ifaces {
		if iw.Name == ifn {
			v = iw.Fwd
		}
	}
	for i := range info.ev {
		e := &info.ev[i]
		if e.Seq >= seq {
			break
		}
		if e.K == "act.fwd" && e.Node == node && e.If == ifn {
			v = e.V == 1
		}
	}
	return v
}
