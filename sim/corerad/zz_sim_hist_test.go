package corerad

// History analysis shared by the oracles: the flat event log is folded into
// dial generations, RA builds and transmissions.

import (
	"fmt"
	"net/netip"
	"strings"

	"github.com/mdlayher/corerad/internal/verifsim"
	"github.com/mdlayher/ndp"
)

// A build is one RA generation by one goroutine: the forwarding read, the
// listings it was given, the log lines it wrote, and how it ended.
type build struct {
	helpers  bool  // some of its system calls were made by helper goroutines it started
	routeIdx []int // loopback interface index of each route listing
	g       int
	node    int
	ifn     string
	seq     int   // fwd.enter
	t1      int64 // fwd.enter
	t2      int64 // end (write.enter / failure / last event)
	fwd     bool
	fwdErr  string
	addr    []string // address listings handed to this build, in order ("!err" = failed)
	addrIf  []string // the interface each of those listings was taken from
	addrIdx []int    // ... and the interface index that was asked for
	routes  []string // per loopback index route listings, in order
	loopErr string
	logs    []string
	held    int64 // fake ns this build spent parked by the plan
}

// A write is one Conn.WriteTo call.
type write struct {
	seq, exitSeq int
	t, exitT     int64
	g            int
	node         int
	ifn          string
	gen          int
	dst          netip.Addr
	b            []byte
	ra           *ndp.RouterAdvertisement // decoded from the bytes on the wire
	marshalErr   string
	err          string // injected transmit error
	fault        string
	build        *build
}

func (w *write) mc() bool { return w.dst.IsMulticast() }

// A rx is one packet handed to the daemon by ReadFrom.
type rx struct {
	seq  int
	t    int64
	node int
	ifn  string
	gen  int
	src  netip.Addr
	hop  int
	b    []byte
	msg  ndp.Message
}

// A generation is the life of one connection of one interface.
type generation struct {
	node    int
	ifn     string
	gen     int
	dialSeq int
	mac     string
	index   int   // interface index this generation was dialed with
	t0      int64 // dial.exit
	endSeq  int   // first event after which the generation is torn down (0 = never)
	tEnd    int64
	doomT   int64 // instant at which its teardown was triggered by a link-down event (0 = never): from then on it stops serving
	writes  []*write
	rxs     []*rx
}

type history struct {
	ev     []verifsim.Event
	gens   []*generation
	byKey  map[string]*generation
	writes []*write
	builds []*build
	endT   int64 // act.endrun
	endSeq int
}

func genKey(node int, ifn string, gen int) string { return fmt.Sprintf("%d|%s|%d", node, ifn, gen) }

func taskIface(s string) string {
	// advertiser "eth0" / monitor "eth0"
	i := strings.IndexByte(s, '"')
	j := strings.LastIndexByte(s, '"')
	if i < 0 || j <= i {
		return ""
	}
	return s[i+1 : j]
}

func parseRA(b []byte) *ndp.RouterAdvertisement {
	m, err := ndp.ParseMessage(b)
	if err != nil {
		return nil
	}
	ra, _ := m.(*ndp.RouterAdvertisement)
	return ra
}

func analyse(ev []verifsim.Event) *history {
	h := &history{ev: ev, byKey: map[string]*generation{}}
	cur := map[string]*generation{} // node|if -> live generation
	open := map[int]*build{}        // goroutine -> build in progress
	wbySeq := map[int]*write{}
	parkStart := map[int]int64{} // enter seq -> t (for held accounting)

	endGen := func(node int, ifn string, seq int, t int64) {
		k := fmt.Sprintf("%d|%s", node, ifn)
		if g := cur[k]; g != nil && g.endSeq == 0 {
			g.endSeq, g.tEnd = seq, t
		}
		delete(cur, k)
	}

	// A build's system calls may be made by helper goroutines it starts (plugins
	// applied side by side): what a goroutine without a build of its own does
	// belongs to the nearest ancestor that has one in progress.
	parent := map[int]int{}
	owner := func(e *verifsim.Event) *build {
		if e.PG != 0 {
			parent[e.G] = e.PG
		}
		for g, n := e.G, 0; g != 0 && n < 8; g, n = parent[g], n+1 {
			if b := open[g]; b != nil {
				if g != e.G {
					b.helpers = true
				}
				return b
			}
		}
		return nil
	}

	for i := range ev {
		e := &ev[i]
		switch e.K {
		case "dial.enter":
			endGen(e.Node, e.If, e.Seq, e.T)
		case "dial.exit":
			if e.Err == "" {
				g := &generation{node: e.Node, ifn: e.If, gen: e.Gen, dialSeq: e.Seq, t0: e.T, mac: e.S, index: int(e.V)}
				h.gens = append(h.gens, g)
				h.byKey[genKey(e.Node, e.If, e.Gen)] = g
				cur[fmt.Sprintf("%d|%s", e.Node, e.If)] = g
			}
		case "task.exit":
			if ifn := taskIface(e.S); ifn != "" {
				endGen(e.Node, ifn, e.Seq, e.T)
			}
		case "act.link":
			if isDown(e.S) && e.Err == "" {
				if g := cur[fmt.Sprintf("%d|%s", e.Node, e.If)]; g != nil && g.doomT == 0 {
					g.doomT = e.T
				}
			}
		case "act.endrun":
			h.endT, h.endSeq = e.T, e.Seq
		case "fwd.enter":
			b := &build{g: e.G, node: e.Node, ifn: e.If, seq: e.Seq, t1: e.T, t2: e.T}
			open[e.G] = b
			h.builds = append(h.builds, b)
			if e.F != "" {
				parkStart[e.Seq] = e.T
			}
		case "fwd.exit":
			if b := open[e.G]; b != nil {
				b.fwd, b.fwdErr, b.t2 = e.V == 1, e.Err, e.T
				if t0, ok := parkStart[e.Ref]; ok {
					b.held += e.T - t0
				}
				// (a failed read normally ends the build; if the same goroutine
				// transmits anyway the write is still attributed to it)
			}
		case "rtnl.addr.enter", "rtnl.route.enter":
			if e.F != "" {
				parkStart[e.Seq] = e.T
			}
		case "rtnl.addr.exit":
			if b := owner(e); b != nil {
				if e.Err != "" {
					b.addr = append(b.addr, "!"+e.Err)
				} else {
					b.addr = append(b.addr, e.S)
				}
				if e.If == "" {
					b.addrIf = append(b.addrIf, fmt.Sprintf("<index %d>", e.V))
				} else {
					b.addrIf = append(b.addrIf, e.If)
				}
				b.addrIdx = append(b.addrIdx, int(e.V))
				b.t2 = e.T
				if t0, ok := parkStart[e.Ref]; ok {
					b.held += e.T - t0
				}
			}
		case "rtnl.route.exit":
			if b := owner(e); b != nil {
				if e.Err != "" {
					b.routes = append(b.routes, "!"+e.Err)
				} else {
					b.routes = append(b.routes, e.S)
				}
				b.routeIdx = append(b.routeIdx, int(e.V))
				b.t2 = e.T
				if t0, ok := parkStart[e.Ref]; ok {
					b.held += e.T - t0
				}
			}
		case "loopbacks":
			if b := owner(e); b != nil && e.Err != "" {
				b.loopErr = e.Err
			}
		case "log":
			if b := owner(e); b != nil {
				b.logs = append(b.logs, e.S)
			}
		case "write.enter":
			w := &write{seq: e.Seq, t: e.T, g: e.G, node: e.Node, ifn: e.If, gen: e.Gen, b: e.B, fault: e.F}
			w.dst, _ = netip.ParseAddr(e.S)
			if strings.HasPrefix(e.Err, "marshal: ") {
				w.marshalErr = e.Err
			} else {
				w.ra = parseRA(e.B)
			}
			if b := open[e.G]; b != nil {
				b.t2 = e.T
				w.build = b
				delete(open, e.G)
			}
			wbySeq[e.Seq] = w
			h.writes = append(h.writes, w)
			if g := h.byKey[genKey(e.Node, e.If, e.Gen)]; g != nil {
				g.writes = append(g.writes, w)
			}
		case "write.exit":
			if w := wbySeq[e.Ref]; w != nil {
				w.exitSeq, w.exitT, w.err = e.Seq, e.T, e.Err
			}
		case "read.exit":
			if e.Err == "" {
				r := &rx{seq: e.Seq, t: e.T, node: e.Node, ifn: e.If, gen: e.Gen, hop: int(e.V), b: e.B}
				r.src, _ = netip.ParseAddr(e.S)
				r.msg, _ = ndp.ParseMessage(e.B)
				if g := h.byKey[genKey(e.Node, e.If, e.Gen)]; g != nil {
					g.rxs = append(g.rxs, r)
				}
			}
		}
	}
	return h
}

// firstSeq returns the sequence number of the first event matching pred, or 0.
func (h *history) first(pred func(e *verifsim.Event) bool) *verifsim.Event {
	for i := range h.ev {
		if pred(&h.ev[i]) {
			return &h.ev[i]
		}
	}
	return nil
}

// staleIndexRelevant reports whether, at event seq, the interface had been
// re-created (reindex) AND re-dialed since: only then is a listing by the old
// index a defect (until the re-dial the daemon cannot know the new index).
func staleIndexRelevant(ev []verifsim.Event, node int, ifn string, seq int) bool {
	reindexed, redialed := false, false
	for i := range ev {
		e := &ev[i]
		if e.Seq >= seq {
			break
		}
		if e.Node != node || e.If != ifn {
			continue
		}
		switch {
		case e.K == "act.reindex":
			reindexed, redialed = true, false
		case e.K == "dial.exit" && e.Err == "" && reindexed:
			redialed = true
		}
	}
	return reindexed && redialed
}

// deliveredAlive reports whether a packet action was handed to a connection
// that was still in service at that moment (a packet arriving on a socket that
// is being replaced is simply lost; that is nobody's defect).
func (h *history) deliveredAlive(e *verifsim.Event) bool {
	g := h.byKey[genKey(e.Node, e.If, e.Gen)]
	if g == nil {
		return false
	}
	if g.doomT != 0 && e.T >= g.doomT {
		return false // its teardown had been triggered already
	}
	return g.endSeq == 0 || g.endSeq > e.Seq
}

func isAllNodes(a netip.Addr) bool { return a == netip.IPv6LinkLocalAllNodes() }

func ms(ns int64) string { return fmt.Sprintf("%.6fs", float64(ns)/1e9) }

// unreadDeliveries applies the "nothing is left in the socket" rule per
// connection generation: every message delivered to a connection is read,
// unless the connection was given up (link change, failure, stop) while its
// listener was legitimately not waiting in a receive: backing off after a
// receive timeout, or inside a receive that had dequeued its packet and was slow
// to return (read.post). What is queued then is lost with the socket. A listener
// that was waiting in ReadFrom at that moment has, by construction of the
// simulated socket, read everything delivered before.
func (h *history) unreadDeliveries(ifn string, stopT int64, busyProbe func(), report func(g *generation, delivered int, cutT int64)) {
	for _, g := range h.gens {
		if g.ifn != ifn {
			continue
		}
		cutT := int64(1) << 62
		for _, t := range []int64{g.doomT, g.tEnd, stopT} {
			if t != 0 && t < cutT {
				cutT = t
			}
		}
		delivered, busy := 0, false
		for i := range h.ev {
			e := &h.ev[i]
			if e.If != ifn || e.Gen != g.gen || e.Node != g.node || e.T >= cutT {
				continue
			}
			switch e.K {
			case "act.ra", "act.rs", "act.ns", "act.na":
				if e.Err == "" {
					delivered++
				}
			case "read.enter":
				busy = false
			case "read.post":
				busy = true
			case "read.exit":
				busy = e.Err == "timeout"
			}
		}
		if busy {
			busyProbe()
			continue
		}
		if len(g.rxs) < delivered {
			report(g, delivered, cutT)
		}
	}
}

// isDown: does a link action's batch of operational states ("down", "down+up",
// "up+down+dormant") contain a link-down?
func isDown(oper string) bool {
	for _, op := range strings.Split(oper, "+") {
		if op == "down" {
			return true
		}
	}
	return false
}
