package corerad

// C07 — each valid RS is answered exactly once, to the right destination, in
// time; counters equal what actually happened.

import (
	"fmt"
	"sort"
	"strings"
	"time"

	"github.com/mdlayher/corerad/internal/verifsim"
	"github.com/mdlayher/ndp"
)

const maxRADelayNs = 500 * nsMs

func c07Gen(rng *verifsim.RNG, idx int, tier string) *Plan {
	p := oneAdvertiser(rng)
	s := &p.Nodes[0].Config.Interfaces[0]
	s.MaxInterval = sp([]string{"4s", "7s", "30s", "600s"}[rng.Intn(4)])
	s.UnicastOnly = rng.Bool(0.25)
	s.Verbose = rng.Bool(0.2)
	if rng.Bool(0.4) {
		s.Prefixes = []PrefixSpec{{Prefix: sp("2001:db8:1::/64")}}
		s.RDNSS = []RDNSSSpec{{Servers: []string{"2001:db8::53"}}}
	}
	p.Class = "exact"
	p.Nodes[0].Metrics = []string{"prom", "mem"}[rng.Intn(2)]
	horizon := rng.Dur(3*time.Second, 40*time.Second)
	nh := rng.Range(1, 6)
	t := int64(0)
	pat := rng.Intn(4)
	n := rng.Range(1, 30)
	for i := 0; i < n; i++ {
		switch pat {
		case 0: // isolated
			t = int64(rng.Dur(0, horizon))
		case 1: // back-to-back at one instant
			if i%8 == 0 {
				t = int64(rng.Dur(0, horizon))
			}
		case 2: // periodic
			t += int64(rng.Dur(10*time.Millisecond, time.Second))
		default: // around whole seconds (timer ticks)
			t = int64(rng.Range(1, int(horizon/time.Second)))*nsSec + int64(rng.Range(-2, 2))*nsMs
		}
		src := hostAddr(rng.Intn(nh))
		if rng.Bool(0.15) {
			src = "::"
		}
		a := rsAction(t+jitter(rng), src)
		if rng.Bool(0.5) {
			a.SLLA = fmt.Sprintf("02:aa:00:00:00:%02x", rng.Intn(256))
		}
		if rng.Bool(0.1) {
			// duplicated on the link: every copy is a solicitation in its own right
			a.N = rng.Range(2, 4)
		}
		if pat == 1 && rng.Bool(0.2) {
			a.N = rng.Range(10, 40) // more than the 16-slot request queue
		}
		if rng.Bool(0.1) {
			// another host's solicitation (or one from ::) in the socket right
			// behind this one: both are handed over before the scheduler runs
			o := hostAddr(rng.Intn(nh))
			if rng.Bool(0.3) {
				o = "::"
			}
			t := rsAction(a.At, o)
			a.Then = &t
		}
		p.Actions = append(p.Actions, a)
	}
	if rng.Bool(0.2) {
		// a peer router's RAs in between: valid messages that need no answer
		for i, k := 0, rng.Range(1, 3); i < k; i++ {
			p.Actions = append(p.Actions, Action{At: int64(rng.Dur(0, horizon)) + jitter(rng), Kind: "ra", If: "eth0", Src: "fe80::beef", RA: &RASpec{Hop: 64, Lifetime: 1800}})
		}
	}
	switch rng.Intn(5) {
	case 0:
		// every transmission is slow (sometimes slower than the 500 ms the answers
		// are spread over): each RA still starts on time, they do not wait for
		// each other
		p.Class = "latency"
		lat := rng.Dur(time.Millisecond, 300*time.Millisecond)
		if rng.Bool(0.3) {
			lat = rng.Dur(300*time.Millisecond, 2*time.Second)
		}
		p.Faults = append(p.Faults, Fault{Seam: "write", Count: -1, Lat: int64(lat)})
	case 1:
		p.Class = "faults"
		p.Faults = append(p.Faults, Fault{Seam: "write", Key: []string{"uc", "mc", ""}[rng.Intn(3)], N: rng.Range(2, 12),
			Err: []string{"ENOBUFS", "ENETDOWN", "EINVAL"}[rng.Intn(3)]})
	case 3:
		// several transmissions in flight at once, all slow and all failing:
		// only the first error is ever heard by the scheduler
		p.Class = "faults-overlapping"
		f := Fault{Seam: "write", Key: []string{"uc", ""}[rng.Intn(2)], Skip: rng.Range(1, 7), Count: rng.Range(2, 4),
			Err: []string{"ENOBUFS", "ENETDOWN", "EINVAL"}[rng.Intn(3)], Lat: int64(rng.Dur(50*time.Millisecond, 900*time.Millisecond))}
		if rng.Bool(0.6) {
			// make sure they overlap: a handful of hosts soliciting within a few
			// milliseconds, every answer slow (longer than the 500 ms the answers
			// are spread over) and failing; and somebody who asks again later
			t0 := int64(rng.Dur(500*time.Millisecond, horizon/2))
			f.Skip, f.From, f.Key = 0, t0, "uc"
			f.Lat = int64(rng.Dur(600*time.Millisecond, 1500*time.Millisecond))
			for i, k := 0, rng.Range(2, 5); i < k; i++ {
				p.Actions = append(p.Actions, rsAction(t0+int64(i)*nsMs+jitter(rng), hostAddr(2*i)))
			}
			p.Actions = append(p.Actions, rsAction(t0+int64(rng.Dur(4*time.Second, 6*time.Second)), hostAddr(1)))
			if int64(horizon) < t0+8*nsSec {
				horizon = time.Duration(t0 + 8*nsSec)
			}
		}
		p.Faults = append(p.Faults, f)
	case 2:
		p.Class = "flap"
		p.Actions = append(p.Actions, Action{At: int64(rng.Dur(time.Second, horizon)) + jitter(rng), Kind: "link", If: "eth0", Oper: "down"})
	}
	if rng.Bool(0.2) {
		// some receives are slow to return after the packet arrived (the delay
		// window of a solicitation starts when the daemon gets it)
		p.Faults = append(p.Faults, Fault{Seam: "read.post", From: int64(rng.Dur(0, horizon)), Count: rng.Range(1, 5), Lat: int64(rng.Dur(time.Millisecond, 800*time.Millisecond))})
		p.Class += "+slow-receive"
	}
	p.Horizon = int64(horizon)
	if rng.Bool(0.5) {
		p.Stop = []string{"SIGTERM", "SIGHUP"}[rng.Intn(2)]
	}
	if rng.Bool(0.25) {
		secondInterface(rng, p)
	}
	return p
}

func c07Oracle(info *runInfo, res *verifsim.Result) {
	if info.rejected[0] != "" {
		res.Skipped = "config_rejected"
		return
	}
	h := analyse(info.ev)
	for i := range info.plan.Nodes[0].Config.Interfaces {
		spec := &info.plan.Nodes[0].Config.Interfaces[i]
		if spec.Advertise {
			c07Iface(info, res, h, spec)
		}
	}
}

func c07Iface(info *runInfo, res *verifsim.Result, h *history, spec *IfaceSpec) {
	ifn := spec.Name
	base := strings.TrimSuffix(strings.TrimSuffix(info.plan.Class, "+2if"), "+slow-receive")
	base = strings.TrimSuffix(base, "+2if")
	exact := base == "exact" || base == "flap" || base == "latency"
	stopT, _, _ := stopInstant(h, 0)
	taskG := 0
	for i := range h.ev {
		if h.ev[i].K == "dial.enter" && h.ev[i].If == ifn {
			taskG = h.ev[i].G
			break
		}
	}

	answered := 0
	for _, g := range h.gens {
		if g.ifn != ifn {
			continue
		}
		end := g.tEnd
		if g.endSeq == 0 {
			end = h.endT
		}
		if stopT != 0 && stopT < end {
			end = stopT
		}
		if g.doomT != 0 && g.doomT < end {
			end = g.doomT // re-initialisation was triggered then
		}
		// a transmit error ends the generation as soon as the scheduler hears of it
		for _, w := range g.writes {
			if w.err != "" && w.exitT < end {
				end = w.exitT
			}
		}
		// ... and ends it for good: the connection is given up (to be
		// re-established), however many transmissions failed at once. Whoever
		// solicits afterwards is not served by a connection that is kept but dead.
		if g.endSeq == 0 {
			lim := h.endT
			if stopT != 0 && stopT < lim {
				lim = stopT
			}
			for _, w := range g.writes {
				if w.err != "" && w.exitT != 0 && w.exitT+nsSec < lim {
					res.Violate("C07.once", "stuck", "%s gen %d: the transmission to %s failed at %s (%s) but the connection was neither given up nor replaced by %s: solicitations arriving on it are never answered", ifn, g.gen, w.dst, ms(w.exitT), w.err, ms(lim))
					break
				}
			}
		}
		type sol struct {
			t       int64
			matched bool
		}
		sols := map[string][]*sol{}
		for _, r := range g.rxs {
			if r.hop != 255 {
				continue
			}
			if _, ok := r.msg.(*ndp.RouterSolicitation); !ok {
				continue
			}
			if r.src.IsUnspecified() {
				continue
			}
			sols[r.src.String()] = append(sols[r.src.String()], &sol{t: r.t})
		}
		var ucs []*write
		for _, w := range g.writes {
			if w.marshalErr != "" {
				continue
			}
			if w.mc() {
				if spec.UnicastOnly {
					res.Violate("C07.unicastonly", "mc", "%s: unicast-only interface transmitted to %s at %s", ifn, w.dst, ms(w.t))
				}
				continue
			}
			ucs = append(ucs, w)
		}
		sort.SliceStable(ucs, func(i, j int) bool { return ucs[i].t < ucs[j].t })
		for _, w := range ucs {
			dst := w.dst.String()
			ss, ok := sols[dst]
			if !ok {
				res.Violate("C07.dest", "dest", "%s gen %d: unicast RA to %s at %s, an address that never solicited", ifn, g.gen, dst, ms(w.t))
				continue
			}
			var m *sol
			late := false
			for _, s := range ss {
				if s.matched || s.t > w.t {
					continue
				}
				if w.t < s.t+maxRADelayNs || !exact {
					m = s
					break
				}
				late = true
			}
			if m != nil {
				m.matched = true
				answered++
			} else if late {
				res.Violate("C07.once", "late", "%s gen %d: unicast RA to %s at %s answers no solicitation within 500ms (solicitations at %v)", ifn, g.gen, dst, ms(w.t), solTimes(ss))
			} else {
				res.Violate("C07.once", "extra", "%s gen %d: unicast RA to %s at %s has no unanswered solicitation before it (solicitations at %v)", ifn, g.gen, dst, ms(w.t), solTimes(ss))
			}
			if w.err == "" {
				if d, m := contentRule(info, h, w); d != "" && (m == nil || len(m.unrep) == 0) {
					res.Violate("C07.content", "content", "%s gen %d: unicast RA to %s at %s: %s", ifn, g.gen, dst, ms(w.t), d)
				}
			}
		}
		for dst, ss := range sols {
			for _, s := range ss {
				if s.matched {
					continue
				}
				if s.t+maxRADelayNs > end {
					res.Probe("solicitation_cut_off_by_stop")
					continue // stopped or re-initialised before it was due
				}
				res.Violate("C07.once", "unanswered", "%s gen %d: solicitation from %s received at %s was never answered (generation lived until %s)", ifn, g.gen, dst, ms(s.t), ms(end))
			}
		}
	}

	// Counters: scheduled transmissions actually made, validated messages
	// received, failed transmissions.
	cnt := map[string]int64{}
	for i := range h.ev {
		e := &h.ev[i]
		if e.K == "counter" && strings.Contains(e.S, "interface="+ifn) {
			cnt[e.S] += e.V / 1e6
		}
	}
	var sentUC, sentMC, failed int64
	for _, w := range h.writes {
		if w.ifn != ifn || w.g == taskG || w.marshalErr != "" || w.exitSeq == 0 {
			continue
		}
		switch {
		case w.err != "":
			failed++
		case w.mc():
			sentMC++
		default:
			sentUC++
		}
	}
	var rs, ra int64
	for _, g := range h.gens {
		for _, r := range g.rxs {
			if r.ifn != ifn || r.hop != 255 {
				continue
			}
			switch r.msg.(type) {
			case *ndp.RouterSolicitation:
				rs++
			case *ndp.RouterAdvertisement:
				ra++
			}
		}
	}
	check := func(series string, want int64, sig string) {
		if got := cnt[series]; got != want {
			res.Violate("C07.counters", sig, "%s = %d, but %d happened", series, got, want)
		}
	}
	lab := "interface=" + ifn
	check("corerad_advertiser_router_advertisements_total{"+lab+",type=unicast}", sentUC, "sent-unicast")
	check("corerad_advertiser_router_advertisements_total{"+lab+",type=multicast}", sentMC, "sent-multicast")
	check("corerad_advertiser_messages_received_total{"+lab+",message=router solicitation}", rs, "received-rs")
	check("corerad_advertiser_messages_received_total{"+lab+",message=router advertisement}", ra, "received-ra")
	check("corerad_advertiser_errors_total{"+lab+",error=transmit}", failed, "errors-transmit")

	res.Nontrivial = res.Nontrivial || answered >= 1
	if len(h.gens) > len(info.plan.Nodes[0].Ifaces) {
		res.Probe("reinitialised")
	}
}

func solTimes[T any](ss []*T) string { return fmt.Sprintf("%d of them", len(ss)) }

func init() {
	register("C07", nil, c07Gen, c07Oracle)
}
