package corerad

// Auxiliary run OUTSIDE the simulation family (DESIGN.md 14.5): the tasks of
// one daemon on real goroutines and real threads, built with -race.
//
// Why it exists: inside the simulator one goroutine runs at a time and steps
// back only at synchronisation points, so state that two tasks share WITHOUT
// any synchronisation (a package-level cache, a field of a shared object) is
// never seen half-written there. The race detector sees exactly that, whatever
// the interleaving of this particular execution was. A reported race fails the
// check it belongs to; silence proves nothing and is not counted as evidence.
//
// Nothing in here goes through the simulated world: its event log and fault
// table are guarded by one mutex, which would order every task's steps with
// every other's and hide what this run is looking for. Connections are plain
// channels, the "operating system" is a set of constants.

import (
	"context"
	"fmt"
	"io"
	"log"
	"net"
	"net/http/httptest"
	"net/netip"
	"os"
	"runtime"
	"strings"
	"sync"
	"syscall"
	"testing"
	"time"

	"github.com/jsimonetti/rtnetlink"
	"github.com/mdlayher/corerad/internal/config"
	"github.com/mdlayher/corerad/internal/crhttp"
	"github.com/mdlayher/corerad/internal/netstate"
	"github.com/mdlayher/corerad/internal/system"
	"github.com/mdlayher/metricslite"
	"github.com/mdlayher/ndp"
	"github.com/mdlayher/netlink"
	"github.com/prometheus/client_golang/prometheus"
	"github.com/prometheus/client_golang/prometheus/promhttp"
	"golang.org/x/net/ipv6"
	"golang.org/x/sys/unix"
)

type raceMsg struct {
	m    ndp.Message
	from netip.Addr
}

type raceConn struct {
	in   chan raceMsg
	mu   sync.Mutex
	dl   time.Time
	wake chan struct{}
}

func newRaceConn() *raceConn { return &raceConn{in: make(chan raceMsg, 64), wake: make(chan struct{})} }

func (c *raceConn) SetReadDeadline(t time.Time) error {
	c.mu.Lock()
	c.dl = t
	ch := c.wake
	c.wake = make(chan struct{})
	c.mu.Unlock()
	close(ch)
	return nil
}

func (c *raceConn) ReadFrom() (ndp.Message, *ipv6.ControlMessage, netip.Addr, error) {
	for {
		c.mu.Lock()
		dl, wake := c.dl, c.wake
		c.mu.Unlock()
		var tc <-chan time.Time
		if !dl.IsZero() {
			d := time.Until(dl)
			if d <= 0 {
				return nil, nil, netip.Addr{}, &net.OpError{Op: "read", Net: "ip6:ipv6-icmp", Err: timeoutErr{}}
			}
			tm := time.NewTimer(d)
			defer tm.Stop()
			tc = tm.C
		}
		select {
		case m := <-c.in:
			return m.m, &ipv6.ControlMessage{HopLimit: 255}, m.from, nil
		case <-wake:
		case <-tc:
		}
	}
}

func (c *raceConn) WriteTo(ndp.Message, *ipv6.ControlMessage, netip.Addr) error { return nil }

// raceState is an operating system in which nothing ever changes.
type raceState struct{}

func (raceState) IPv6Autoconf(string) (bool, error)   { return false, nil }
func (raceState) IPv6Forwarding(string) (bool, error) { return true, nil }
func (raceState) SetIPv6Autoconf(string, bool) error  { return nil }

func raceRtnl(m rtnetlink.Message, family uint16, flags netlink.HeaderFlags) ([]rtnetlink.Message, error) {
	switch m := m.(type) {
	case *rtnetlink.AddressMessage:
		var out []rtnetlink.Message
		for _, a := range []string{"fe80::1/64", "2001:db8:1::1/64", "fd00:1::1/64", "2001:db8:2::1/64"} {
			p := netip.MustParsePrefix(a)
			out = append(out, &rtnetlink.AddressMessage{
				Family: unix.AF_INET6, PrefixLength: uint8(p.Bits()), Flags: unix.IFA_F_PERMANENT, Index: m.Index,
				Attributes: &rtnetlink.AddressAttributes{Address: net.IP(p.Addr().AsSlice()), CacheInfo: rtnetlink.CacheInfo{Valid: 3600, Prefered: 3600}, Flags: unix.IFA_F_PERMANENT},
			})
		}
		return out, nil
	case *rtnetlink.RouteMessage:
		var out []rtnetlink.Message
		for _, r := range []string{"2001:db8:100::/48", "2001:db8:100:1::/64", "fd00:200::/48"} {
			p := netip.MustParsePrefix(r)
			out = append(out, &rtnetlink.RouteMessage{
				Family: unix.AF_INET6, DstLength: uint8(p.Bits()), Table: unix.RT_TABLE_MAIN,
				Attributes: rtnetlink.RouteAttributes{Dst: net.IP(p.Addr().AsSlice()), OutIface: m.Attributes.OutIface, Table: unix.RT_TABLE_MAIN},
			})
		}
		return out, nil
	}
	return nil, fmt.Errorf("race: unexpected rtnetlink request %T", m)
}

const raceConfigAdvertisers = `
[[interfaces]]
names = ["eth0", "eth1"]
advertise = true
max_interval = "4s"
min_interval = "3s"
  [[interfaces.prefix]]
  prefix = "::/64"
  [[interfaces.prefix]]
  prefix = "2001:db8:7::/64"
  deprecated = true
  valid_lifetime = "1h"
  preferred_lifetime = "30m"
  [[interfaces.route]]
  prefix = "::/0"
  [[interfaces.rdnss]]
  servers = ["::", "2001:db8::53"]
  [[interfaces.dnssl]]
  domain_names = ["example.com"]

[[interfaces]]
name = "eth2"
advertise = true
max_interval = "4s"
  [[interfaces.prefix]]
  prefix = "::/64"
  [[interfaces.route]]
  prefix = "2001:db8:ffff::/48"
  deprecated = true
  lifetime = "20m"
`

const raceConfigMonitors = `
[[interfaces]]
names = ["wan0", "wan1", "wan2"]
monitor = true
`

// TestRace runs one of two mixes (VERIF_RACE=monitors|daemon) for a couple of
// seconds. It never fails by itself: the runner looks for the race detector's
// report in the output.
func TestRace(t *testing.T) {
	mix := os.Getenv("VERIF_RACE")
	if mix == "" {
		t.Skip("auxiliary race run: set VERIF_RACE=monitors|daemon")
	}
	text := raceConfigMonitors
	if mix == "daemon" {
		text = raceConfigAdvertisers + raceConfigMonitors
	}
	system.VerifRtnl = raceRtnl
	system.VerifLoopbacks = func() ([]int, error) { return []int{1}, nil }
	defer func() { system.VerifRtnl, system.VerifLoopbacks = nil, nil }()

	cfg, err := config.Parse(strings.NewReader(text), time.Now())
	if err != nil {
		t.Fatalf("race: configuration rejected: %v", err)
	}
	ll := log.New(io.Discard, "", 0)
	state := raceState{}
	reg := prometheus.NewPedanticRegistry()
	mm := NewMetrics(metricslite.NewPrometheus(reg), "race", time.Time{}, state, cfg.Interfaces)
	cctx := NewContext(ll, mm, state)
	handler := crhttp.NewHandler(ll, state, *cfg, promhttp.HandlerFor(reg, promhttp.HandlerOpts{}))

	s := NewServer(cctx)
	var emitMu sync.Mutex
	var emit func([]rtnetlink.Message)
	src := func(ctx context.Context, e func(msgs []rtnetlink.Message)) error {
		emitMu.Lock()
		emit = e
		emitMu.Unlock()
		<-ctx.Done()
		emitMu.Lock()
		emit = nil
		emitMu.Unlock()
		return nil
	}
	if !setFieldOfType(s, netstate.NewWatcherFromSource(src)) {
		t.Skip("race: Server has no *netstate.Watcher field")
	}
	tasks := s.BuildTasks(*cfg, handler)

	conns := map[string]*struct {
		mu  sync.Mutex
		cur *raceConn
	}{}
	idx := 10
	setDial := func(dl *system.Dialer, name string) {
		idx++
		myIdx := idx
		slot := &struct {
			mu  sync.Mutex
			cur *raceConn
		}{}
		conns[name] = slot
		dl.DialFunc = func() (*system.DialContext, error) {
			c := newRaceConn()
			slot.mu.Lock()
			slot.cur = c
			slot.mu.Unlock()
			return &system.DialContext{
				Conn: c,
				Interface: &net.Interface{Index: myIdx, MTU: 1500, Name: name,
					HardwareAddr: net.HardwareAddr{2, 0, 0, 0, 0, byte(myIdx)}, Flags: net.FlagUp | net.FlagBroadcast | net.FlagMulticast},
				IP: netip.MustParseAddr(fmt.Sprintf("fe80::%x", myIdx)),
			}, nil
		}
	}
	for _, tk := range tasks {
		switch x := tk.(type) {
		case *Advertiser:
			if dl, ok := fieldOfType[*system.Dialer](x); ok {
				setDial(dl, taskIface(tk.String()))
			}
		case *Monitor:
			if dl, ok := fieldOfType[*system.Dialer](x); ok {
				setDial(dl, taskIface(tk.String()))
			}
		}
	}

	sigC := make(chan os.Signal, 1)
	done := make(chan error, 1)
	go func() { done <- s.Serve(sigC, nil, tasks) }()

	stop := make(chan struct{})
	var wg sync.WaitGroup
	// one sender per interface: nobody waits for anybody
	for name, slot := range conns {
		wg.Add(1)
		go func(name string, slot *struct {
			mu  sync.Mutex
			cur *raceConn
		}) {
			defer wg.Done()
			for i := 0; ; i++ {
				select {
				case <-stop:
					return
				default:
				}
				slot.mu.Lock()
				c := slot.cur
				slot.mu.Unlock()
				if c == nil {
					time.Sleep(time.Millisecond)
					continue
				}
				from := netip.MustParseAddr(fmt.Sprintf("fe80::a:%x", 1+i%7)).WithZone(name)
				var m ndp.Message
				switch i % 4 {
				case 0:
					m = &ndp.RouterSolicitation{}
				case 1:
					m = &ndp.RouterAdvertisement{CurrentHopLimit: 64, RouterLifetime: 30 * time.Minute, Options: []ndp.Option{
						&ndp.PrefixInformation{PrefixLength: 64, OnLink: true, ValidLifetime: time.Hour, PreferredLifetime: time.Minute, Prefix: netip.MustParseAddr(fmt.Sprintf("2001:db8:%x::", 1+i%5))},
					}}
				case 2:
					m = &ndp.NeighborSolicitation{TargetAddress: netip.MustParseAddr("fe80::1")}
				default:
					m = &ndp.RouterSolicitation{}
					from = netip.IPv6Unspecified()
				}
				select {
				case c.in <- raceMsg{m, from}:
				case <-stop:
					return
				case <-time.After(20 * time.Millisecond):
				}
				if i%64 == 63 {
					time.Sleep(time.Millisecond)
				}
			}
		}(name, slot)
	}
	// scrapes and debug API requests from two clients at once
	for k := 0; k < 2; k++ {
		wg.Add(1)
		go func(k int) {
			defer wg.Done()
			for i := 0; ; i++ {
				select {
				case <-stop:
					return
				default:
				}
				path := []string{"/metrics", "/_/api/interfaces"}[(i+k)%2]
				handler.ServeHTTP(httptest.NewRecorder(), httptest.NewRequest("GET", path, nil))
				time.Sleep(2 * time.Millisecond)
			}
		}(k)
	}
	// a link flap on one interface half-way: re-initialisation next to the others
	go func() {
		time.Sleep(1200 * time.Millisecond)
		emitMu.Lock()
		e := emit
		emitMu.Unlock()
		if e == nil {
			return
		}
		for name := range conns {
			e([]rtnetlink.Message{&rtnetlink.LinkMessage{Attributes: &rtnetlink.LinkAttributes{Name: name, OperationalState: rtnetlink.OperStateDown}}})
			break
		}
	}()

	time.Sleep(2500 * time.Millisecond)
	sigC <- syscall.SIGTERM
	select {
	case <-done:
	case <-time.After(10 * time.Second):
		t.Log("race: Serve did not return (not this run's business)")
		if os.Getenv("VERIF_RACE_DUMP") != "" {
			buf := make([]byte, 1<<20)
			t.Log(string(buf[:runtime.Stack(buf, true)]))
		}
	}
	close(stop)
	wg.Wait()
}
