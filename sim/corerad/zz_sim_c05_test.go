package corerad

// C05 — unsolicited multicast RAs recur forever, waits within
// [MinRtrAdvInterval, MaxRtrAdvInterval], the first three capped at 16 s.
// Component altitude: the real Advertiser.multicast loop on the fake clock, its
// request channel owned by the harness (so requested instants are observed
// exactly), plus a black-box recurrence check on the running daemon.

import (
	"fmt"
	"sort"
	"time"

	"github.com/mdlayher/corerad/internal/verifsim"
	"github.com/mdlayher/ndp"
)

const c05Block = 256 // interval pairs per simulated run

// c05Direct is set by zz_sim_c05direct_test.go when the component harness is
// part of the build.
var c05Direct bool

// c05Pairs enumerates every accepted (min,max) pair at one-second granularity:
// max 4..1800, min 3..floor(0.75*max), plus min=max for max<9 (the documented default).
var c05Prefix []int

func c05Init() {
	if c05Prefix != nil {
		return
	}
	c05Prefix = make([]int, 1802)
	t := 0
	for mx := 4; mx <= 1800; mx++ {
		c05Prefix[mx] = t
		t += c05Count(mx)
	}
	c05Prefix[1801] = t
}

func c05Count(mx int) int {
	n := mx*3/4 - 3 + 1
	if n < 0 {
		n = 0
	}
	if mx < 9 {
		n++ // min = max
	}
	return n
}

func c05Total() int { c05Init(); return c05Prefix[1801] }

func c05Pair(i int) (mn, mx int) {
	c05Init()
	mx = sort.Search(1802, func(m int) bool { return m >= 4 && c05Prefix[m] > i }) - 1
	if mx < 4 {
		mx = 4
	}
	k := i - c05Prefix[mx]
	n := mx*3/4 - 3 + 1
	if n < 0 {
		n = 0
	}
	if k < n {
		return 3 + k, mx
	}
	return mx, mx
}

func c05Enum(tier string) int {
	if tier == "thorough" && c05Direct {
		return (c05Total() + c05Block - 1) / c05Block
	}
	return 0
}

func c05Gen(rng *verifsim.RNG, idx int, tier string) *Plan {
	p := &Plan{Offset: rng.Int63n(int64(time.Hour)), Scenario: "multicast", Class: "pairs-sampled"}
	if e := c05Enum(tier); idx < e {
		p.Class = "pairs-exhaustive"
		for i := idx * c05Block; i < (idx+1)*c05Block && i < c05Total(); i++ {
			mn, mx := c05Pair(i)
			p.Steps = append(p.Steps, Step{Kind: "pair", A: int64(mn) * nsSec, B: int64(mx) * nsSec})
		}
		return p
	}
	pick := rng.Pick(5, 2, 2, 2, 3)
	if !c05Direct {
		pick = 3
	}
	switch pick {
	case 4:
		// the same Advertiser runs its loop again after a re-initialisation (the
		// Dialer re-dials and Run calls advertise() once more): nothing of the
		// previous generation's pacing may leak into the next one
		p.Class = "regenerated"
		for i := 0; i < 128; i++ {
			mn, mx := c05Pair(rng.Intn(c05Total()))
			if rng.Bool(0.5) {
				mx = rng.Range(4, 40)
				mn = 3
				if mx*3/4 > 3 {
					mn = rng.Range(3, mx*3/4)
				}
			}
			// outage between the generations: shorter and longer than a wait
			out := int64(rng.Dur(time.Millisecond, time.Duration(3*mx)*time.Second))
			p.Steps = append(p.Steps, Step{Kind: "pair", A: int64(mn) * nsSec, B: int64(mx) * nsSec, S: "regen", L: []int64{out}})
		}
	case 0:
		for i := 0; i < c05Block; i++ {
			mn, mx := c05Pair(rng.Intn(c05Total()))
			p.Steps = append(p.Steps, Step{Kind: "pair", A: int64(mn) * nsSec, B: int64(mx) * nsSec})
		}
	case 1:
		// fractional values the parser accepts (min truncated bound applies to whole seconds only)
		p.Class = "pairs-fractional"
		for i := 0; i < c05Block; i++ {
			mx := int64(rng.Dur(4*time.Second, 1800*time.Second))
			upper := (mx * 3 / 4) / nsSec * nsSec
			mn := 3*nsSec + rng.Int63n(upper-3*nsSec+1)
			if rng.Bool(0.1) && mx < 9*nsSec {
				mn = mx
			}
			p.Steps = append(p.Steps, Step{Kind: "pair", A: mn, B: mx})
		}
	case 2:
		// a slow consumer: the scheduler does not take requests for a while
		p.Class = "consumer-stalls"
		for i := 0; i < 64; i++ {
			mn, mx := c05Pair(rng.Intn(c05Total()))
			st := Step{Kind: "pair", A: int64(mn) * nsSec, B: int64(mx) * nsSec, S: "stall"}
			for k := 0; k < 7; k++ {
				d := int64(0)
				if rng.Bool(0.3) {
					d = int64(rng.Dur(time.Millisecond, 20*time.Second))
				}
				st.L = append(st.L, d)
			}
			p.Steps = append(p.Steps, st)
		}
	default:
		// black box: the running daemon keeps sending
		q := oneAdvertiser(rng)
		q.Class = "advertiser-recurrence"
		s := &q.Nodes[0].Config.Interfaces[0]
		mx := rng.Range(4, 120)
		s.MaxInterval = sp(secStr(mx))
		if rng.Bool(0.5) && mx*3/4 >= 3 {
			s.MinInterval = sp(secStr(rng.Range(3, mx*3/4)))
		}
		q.Horizon = int64(rng.Dur(10*time.Minute, 3*time.Hour))
		nrs := rng.Range(0, 10)
		if rng.Bool(0.5) {
			// solicitations answered by multicast must not disturb the pacing of
			// the unsolicited ones: a narrow [min,max] (or min = max, the default
			// below 9 s) makes every shift of the schedule visible
			q.Class = "advertiser-solicited"
			if rng.Bool(0.4) {
				mx = rng.Range(6, 8)
				s.MinInterval = nil
			} else {
				mx = rng.Range(12, 300)
				s.MinInterval = sp(secStr(mx * 3 / 4))
			}
			s.MaxInterval = sp(secStr(mx))
			q.Horizon = int64(rng.Dur(time.Duration(10*mx)*time.Second, time.Duration(60*mx)*time.Second))
			nrs = rng.Range(3, 25)
		}
		for i := 0; i < nrs; i++ {
			q.Actions = append(q.Actions, rsAction(int64(rng.Dur(0, time.Duration(q.Horizon)))+jitter(rng), "::"))
		}
		if q.Class == "advertiser-solicited" && s.MinInterval == nil && rng.Bool(0.6) {
			// min = max: the unsolicited loop asks for an RA every mx seconds to
			// the nanosecond, counted from the end of the dial attempt (whose
			// duration is this simulator's own parameter). A burst of more
			// solicitations than the request queue holds, landing in the very
			// instant of such a tick, must not cost the tick.
			q.Class += "+burst-at-tick"
			t0 := int64(1009*q.Nodes[0].Ifaces[0].Index + 13)
			for i, k := 0, rng.Range(1, 3); i < k; i++ {
				tick := t0 + int64(rng.Range(2, int(q.Horizon/nsSec)/mx-1))*int64(mx)*nsSec
				a := rsAction(tick, hostAddr(rng.Intn(3)))
				a.N = rng.Range(17, 40)
				q.Actions = append(q.Actions, a)
			}
		}
		// "recur forever" includes across a re-initialisation
		if maybeReinit(rng, q, "eth0", nsSec, q.Horizon*3/4, 0.3) && rng.Bool(0.4) {
			// ... with a slow transmission in flight at the link event, which then
			// fails: the connection is given up for two reasons at once
			var at int64
			for _, a := range q.Actions {
				if a.Kind == "link" {
					at = a.At
				}
			}
			lat := int64(rng.Dur(200*time.Millisecond, 1500*time.Millisecond))
			q.Faults = append(q.Faults, Fault{Seam: "write", From: at - lat/2 - 600*nsMs, Count: 1, Lat: lat, Err: []string{"ENETDOWN", "ENOBUFS"}[rng.Intn(2)]})
			q.Actions = append(q.Actions, rsAction(at-lat/2-550*nsMs, hostAddr(0)))
			q.Class += "+failing-send-in-flight"
		} else if rng.Bool(0.25) {
			// ... or one caused by nothing but a transmission that fails (transient:
			// no buffers, network down): the connection is replaced and the
			// unsolicited RAs go on
			q.Faults = append(q.Faults, Fault{Seam: "write", Key: []string{"mc", ""}[rng.Intn(2)], From: int64(rng.Dur(time.Second, time.Duration(q.Horizon*3/4))), Count: 1,
				Err: []string{"ENETDOWN", "ENOBUFS", "EINVAL"}[rng.Intn(3)]})
			q.Class += "+failing-send"
		} else if rng.Bool(0.3) {
			// ... or the very first RA of a connection (the one sent to see whether
			// the interface can be used at all) fails for a transient reason
			q.Faults = append(q.Faults, Fault{Seam: "write", Key: "mc", N: []int{1, 1, 2, 3}[rng.Intn(4)], Err: []string{"ENETDOWN", "ENOBUFS", "EINVAL"}[rng.Intn(3)]})
			q.Class += "+failing-initial-send"
		} else if rng.Bool(0.15) {
			// the link state watcher ends while the daemon goes on (its netlink
			// socket is gone, or the platform has none): every subscription is
			// closed, which is not a link change - the unsolicited RAs go on as
			// before, on the same connection
			q.Actions = append(q.Actions, Action{At: int64(rng.Dur(time.Second, time.Duration(q.Horizon*3/4))) + jitter(rng), Kind: "watchend"})
			q.Class += "+watcher-ends"
		}
		return q
	}
	return p
}

func init() {
	register("C05", c05Enum, c05Gen, c05Oracle)
}

func c05Oracle(info *runInfo, res *verifsim.Result) {
	if info.plan.Scenario != "multicast" {
		c05Recurrence(info, res)
		return
	}
	steps := info.plan.Steps
	type st struct {
		req2     []int64
		req      []int64
		cancelT  int64
		after    bool
		returned bool
		perT     map[int64]int
	}
	ss := make([]st, len(steps))
	for i := range ss {
		ss[i].perT = map[int64]int{}
	}
	for i := range info.ev {
		e := &info.ev[i]
		switch e.K {
		case "mc.req":
			if e.V < 0 {
				ss[e.Node].after = true
			} else {
				ss[e.Node].req = append(ss[e.Node].req, e.T)
				ss[e.Node].perT[e.T]++
			}
		case "mc.req2":
			ss[e.Node].req2 = append(ss[e.Node].req2, e.T)
			ss[e.Node].perT[e.T]++
		case "mc.cancel":
			ss[e.Node].cancelT = e.T
		case "mc.returned":
			ss[e.Node].returned = true
		case "mc.delay":
			mn, mx := steps[e.Node].A, steps[e.Node].B
			c05Judge(res, mn, mx, e.V, e.S, 0, true)
		}
	}
	ok := 0
	for j, s := range ss {
		mn, mx := steps[j].A, steps[j].B
		stalled := steps[j].S == "stall"
		if len(s.req) < 7 {
			res.Violate("C05.recur", "stuck", "min=%s max=%s: only %d of 7 requests were made", time.Duration(mn), time.Duration(mx), len(s.req))
			continue
		}
		for k := 0; k+1 < len(s.req); k++ {
			wt := s.req[k+1] - s.req[k]
			c05Judge(res, mn, mx, wt, fmt.Sprintf("wait #%d", k), k, !stalled)
			if stalled && k+1 < len(steps[j].L) {
				// a consumer that was busy when the request came due gets it the
				// moment it is ready again (the request waits, it is not lost):
				// never later than both the longest wait and its own readiness
				ready := s.req[k] + steps[j].L[k+1]
				limit := s.req[k] + mx + nsSec
				if ready > limit {
					limit = ready
				}
				if s.req[k+1] > limit {
					res.Violate("C05.recur", "request-lost", "min=%s max=%s: the consumer was ready again %s after request #%d, but request #%d only came %s after it (a request that came due while the consumer was busy was dropped instead of waiting)",
						time.Duration(mn), time.Duration(mx), time.Duration(steps[j].L[k+1]), k, k+1, time.Duration(wt))
				}
			}
		}
		if steps[j].S == "regen" {
			if len(s.req2) < 5 {
				res.Violate("C05.recur", "stuck-after-reinit", "min=%s max=%s: only %d of 5 requests were made after re-initialisation", time.Duration(mn), time.Duration(mx), len(s.req2))
			}
			for k := 0; k+1 < len(s.req2); k++ {
				c05Judge(res, mn, mx, s.req2[k+1]-s.req2[k], fmt.Sprintf("wait #%d after re-initialisation", k), k, true)
			}
		}
		for t, n := range s.perT {
			if n > 4 {
				res.Violate("C05.positive", "spin", "min=%s max=%s: %d requests in the one instant %s", time.Duration(mn), time.Duration(mx), n, ms(t))
			}
		}
		if s.after {
			res.Violate("C05.stop", "after-cancel", "min=%s max=%s: a request was made after cancellation", time.Duration(mn), time.Duration(mx))
		}
		if !s.returned {
			res.Violate("C05.stop", "not-returned", "min=%s max=%s: the loop did not return after cancellation", time.Duration(mn), time.Duration(mx))
		}
		ok++
	}
	res.Nontrivial = ok >= 1
	res.Probes = map[string]int{"pairs": len(steps)}
}

// c05Judge applies the range rules to one wait / one chosen delay. k is the
// advertisement index (the first three are additionally capped at 16 s).
func c05Judge(res *verifsim.Result, mn, mx, wt int64, what string, k int, upper bool) {
	const cap16 = 16 * nsSec
	if s := what; len(s) > 2 && s[:2] == "i=" {
		fmt.Sscanf(s, "i=%d", &k)
	}
	pair := fmt.Sprintf("min=%s max=%s", time.Duration(mn), time.Duration(mx))
	if wt <= 0 {
		res.Violate("C05.positive", "nonpositive", "%s: %s is %s", pair, what, time.Duration(wt))
		return
	}
	lowWaived := k < 3 && mn > cap16
	if !lowWaived && wt <= mn-nsSec {
		res.Violate("C05.range", "below-min", "%s: %s is %s, more than a second below MinRtrAdvInterval", pair, what, time.Duration(wt))
	}
	if upper && wt >= mx+nsSec {
		res.Violate("C05.range", "above-max", "%s: %s is %s, more than a second above MaxRtrAdvInterval", pair, what, time.Duration(wt))
	}
	if upper && k < 3 && wt > cap16 && mx > cap16 {
		res.Violate("C05.initial", "initial", "%s: %s (one of the first three) is %s, above 16s", pair, what, time.Duration(wt))
	}
}

// c05Recurrence: while running and not unicast-only there is never a window of
// max + 3 s + 1 s without a multicast RA.
func c05Recurrence(info *runInfo, res *verifsim.Result) {
	if info.rejected[0] != "" {
		res.Skipped = "config_rejected"
		return
	}
	h := analyse(info.ev)
	spec := &info.plan.Nodes[0].Config.Interfaces[0]
	mx := int64(maxIntervalOf(spec))
	limit := mx + 3*nsSec + nsSec
	stopT, stopSeq, _ := stopInstant(h, 0)
	n := 0
	for _, g := range h.gens {
		last := g.t0
		end := g.tEnd
		if g.endSeq == 0 || (stopT != 0 && stopT < end) {
			end = stopT
		}
		for _, w := range g.writes {
			if !w.mc() || w.t > end {
				continue
			}
			n++
			if w.t-last > limit {
				res.Violate("C05.recur", "gap", "max_interval=%s: no multicast RA between %s and %s", time.Duration(mx), ms(last), ms(w.t))
			}
			last = w.t
		}
		if end-last > limit {
			res.Violate("C05.recur", "gap", "max_interval=%s: no multicast RA between %s and the end of the generation at %s", time.Duration(mx), ms(last), ms(end))
		}
		c05Unsolicited(res, spec, g, end, stopSeq)
	}
	// across generations: a link change re-initialises at once (nothing makes a
	// dial attempt fail in this population), so the same bound holds from any
	// multicast RA to the next one, whichever connection sends it, up to the stop
	if stopT != 0 {
		// (from the start of the daemon on: an advertiser that never gets its
		// first RA out - or dies trying - is not advertising either)
		all := []int64{0}
		for _, w := range h.writes {
			if w.ifn == spec.Name && w.mc() && w.t <= stopT && w.err == "" && w.marshalErr == "" {
				all = append(all, w.t)
			}
		}
		all = append(all, stopT)
		for i := 1; i < len(all); i++ {
			if all[i]-all[i-1] > limit {
				res.Violate("C05.recur", "gap-across", "max_interval=%s: no multicast RA between %s and %s (generations: %d)", time.Duration(mx), ms(all[i-1]), ms(all[i]), len(h.gens))
				break
			}
		}
	}
	// nothing this population injects is a reason to stop advertising for good
	for i := range h.ev {
		e := &h.ev[i]
		if e.K == "task.exit" && taskIface(e.S) == spec.Name && (stopSeq == 0 || e.Seq < stopSeq) {
			res.Violate("C05.recur", "stopped", "max_interval=%s: the advertiser ended at %s although nobody stopped it: %s (only transient faults were injected: unsolicited RAs must go on)", time.Duration(mx), ms(e.T), e.Err)
		}
	}
	res.Nontrivial = n >= 5
}

// c05Unsolicited: black-box pacing of the unsolicited RAs of one generation in a
// fault-free run. A multicast RA that no solicitation from :: can account for
// (none received in the 3.5 s before it: MAX_RA_DELAY_TIME + MIN_DELAY_BETWEEN_RAS)
// and that was not held back by the rate limit (no multicast RA in the 3 s before
// it) left at the very instant the unsolicited loop asked for it. The time
// between two such RAs is a sum of k >= 1 unsolicited waits, each within
// [min,max] (to the second): a solicitation in between must not have moved the
// schedule.
func c05Unsolicited(res *verifsim.Result, spec *IfaceSpec, g *generation, end int64, stopSeq int) {
	mx := int64(maxIntervalOf(spec))
	mn := mx // documented default below 9 s
	if spec.MinInterval != nil && *spec.MinInterval != "" && *spec.MinInterval != "auto" {
		d, err := time.ParseDuration(*spec.MinInterval)
		if err != nil {
			return
		}
		mn = int64(d)
	} else if mx >= 9*nsSec {
		mn = mx * 33 / 100
	}
	var rs []int64
	for _, r := range g.rxs {
		if _, ok := r.msg.(*ndp.RouterSolicitation); ok && r.hop == 255 && r.src.IsUnspecified() {
			rs = append(rs, r.t)
		}
	}
	var mc []int64
	for _, w := range g.writes {
		if w.mc() && w.t <= end && (stopSeq == 0 || w.seq < stopSeq) {
			if w.err != "" || w.marshalErr != "" {
				return // not a fault-free generation
			}
			mc = append(mc, w.t)
		}
	}
	const account = 3500*nsMs + nsMs
	prevClean := int64(-1)
	for i, m := range mc {
		clean := i > 0 && m-mc[i-1] > 3*nsSec+nsMs
		for _, r := range rs {
			if r <= m && r >= m-account {
				clean = false
			}
		}
		if !clean {
			continue
		}
		if prevClean >= 0 {
			gap := m - prevClean
			lo := mn
			if prevClean-g.t0 < 52*nsSec && lo > 16*nsSec {
				lo = 16 * nsSec // the first three waits are capped
			}
			ok := false
			for k := int64(1); k*(lo-nsSec) < gap; k++ {
				if gap < k*(mx+nsSec) {
					ok = true
					break
				}
			}
			res.Probe("unsolicited_pair_judged")
			if !ok {
				res.Violate("C05.range", "unsolicited-gap", "min=%s max=%s: unsolicited multicast RAs at %s and %s are %s apart, which is not a sum of waits within [min,max] (solicitations from :: in between must not move the schedule)",
					time.Duration(mn), time.Duration(mx), ms(prevClean), ms(m), time.Duration(gap))
			}
		}
		prevClean = m
	}
}
