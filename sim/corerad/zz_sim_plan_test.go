//go:debug asynctimerchan=0

package corerad

// Deterministic simulator for CoreRAD (see /verif/DESIGN.md). This file holds
// the plan: everything one simulated run does is described by one Plan value,
// generated from a seed before the run starts and executed from its JSON form.

import (
	"fmt"
	"sort"
	"strings"

	"github.com/mdlayher/corerad/internal/verifsim"
)

// A Plan is one simulated run.
type Plan struct {
	Prop     string           `json:"prop"`
	Class    string           `json:"class,omitempty"`    // population label (exact, faults, …)
	Scenario string           `json:"scenario,omitempty"` // "" = daemon altitude; otherwise a component scenario
	Clock    []int64          `json:"clock,omitempty"`    // scenario "clock": clock readings, ns relative to the epoch
	Steps    []Step           `json:"steps,omitempty"`    // component scenarios: scripted steps
	Offset   int64            `json:"offset"`             // fake ns slept before anything starts (seeds the daemon's PRNGs)
	Cancel   uint64           `json:"cancel,omitempty"`   // order in which a cancelled context cancels its children (0 = insertion order)
	Sched    uint64           `json:"sched,omitempty"`    // seed of the yield perturbation: at the synchronisation points tools/yieldinst marked, a goroutine steps back behind the other runnable ones when this sequence says so (0 = never)
	Bias     map[string]uint64 `json:"bias,omitempty"`     // with Sched: policy of the yield sites whose name starts with the key (0 = never steps back, 3 = always), overriding what the seed says
	Nodes    []NodeSpec       `json:"nodes"`
	Loop     []RouteW         `json:"loop,omitempty"`    // loopback routes (world-global)
	LoopIdx  []int            `json:"loopidx,omitempty"` // indexes of loopback interfaces (default [1])
	Actions  []Action         `json:"actions,omitempty"`
	Faults   []Fault          `json:"faults,omitempty"`
	Horizon  int64            `json:"horizon"`        // fake ns after which the run is stopped
	Stop     string           `json:"stop,omitempty"` // signal used at the horizon (default SIGTERM); "none": cancel by SIGTERM too but oracles treat as plain end
	Tail     int64            `json:"tail,omitempty"` // fake ns observed after Serve returned (default 10s)
	Opt      map[string]int64 `json:"opt,omitempty"`
}

// A Step is one scripted step of a component scenario.
type Step struct {
	Kind string  `json:"kind"`
	A    int64   `json:"a,omitempty"`
	B    int64   `json:"b,omitempty"`
	S    string  `json:"s,omitempty"`
	L    []int64 `json:"l,omitempty"`
}

// A NodeSpec is one CoreRAD instance and its machine.
type NodeSpec struct {
	Config     ConfigSpec   `json:"config"`
	Ifaces     []IfaceW     `json:"ifaces"`
	Metrics    string       `json:"metrics,omitempty"` // "prom" (default) or "mem"
	Script     []ScriptTask `json:"script,omitempty"`  // extra scripted tasks (C20)
	OnlyScript bool         `json:"only_script,omitempty"`
}

// A ScriptTask is a supervised task whose behaviour is scripted (C20).
type ScriptTask struct {
	Name     string `json:"name"`
	ReadyAt  int64  `json:"ready_at"`            // <0: never ready
	FailAt   int64  `json:"fail_at"`             // <0: never fails
	NilAt    int64  `json:"nil_at"`              // <0: never returns nil early
	StopLag  int64  `json:"stop_lag"`            // returns this long after cancellation
	FailKind string `json:"fail_kind,omitempty"` // "" plain error; "canceled": an error wrapping context.Canceled (an aborted sub-operation of the task)
}

// IfaceW is the machine's view of one network interface.
type IfaceW struct {
	Name  string  `json:"name"`
	Index int     `json:"index"`
	MAC   string  `json:"mac,omitempty"` // "" = no hardware address (point-to-point)
	LL    string  `json:"ll"`            // link-local address
	Link  string  `json:"link,omitempty"`
	Fwd   bool    `json:"fwd"`
	Auto  bool    `json:"auto"`
	Down  bool    `json:"down,omitempty"` // not ready: dial fails with link-not-ready until brought up
	Addrs []AddrW `json:"addrs,omitempty"`
}

// AddrW is one interface address with its kernel flags.
type AddrW struct {
	CIDR    string `json:"cidr"`
	Flags   uint32 `json:"flags,omitempty"` // IFA_F_*
	Forever bool   `json:"forever,omitempty"`
}

// RouteW is one route of a loopback interface.
type RouteW struct {
	Prefix string `json:"prefix"`
	Idx    int    `json:"idx,omitempty"` // loopback interface index (default 1)
	Pref   *int   `json:"pref,omitempty"`
	// Type: the kernel's route type (RTN_*; 0 = unicast). A route to a prefix is
	// a route whatever its type: local (AnyIP), anycast, unreachable, blackhole
	// entries of a loopback interface are listed and expanded like the others.
	Type int `json:"type,omitempty"`
}

// An Action is one environment event at fake time At (ns since run start,
// after Offset).
type Action struct {
	At   int64  `json:"at"`
	Kind string `json:"kind"`
	Node int    `json:"node,omitempty"`
	If   string `json:"if,omitempty"`

	// Packets: kind rs, ra, ns, na, echo.
	Src  string  `json:"src,omitempty"`
	Hop  *int    `json:"hop,omitempty"` // default 255
	SLLA string  `json:"slla,omitempty"`
	RA   *RASpec `json:"ra,omitempty"`
	N    int     `json:"n,omitempty"` // copies delivered at this instant (default 1)
	Conn bool    `json:"conn,omitempty"` // http: the request travels over a (simulated) connection through the real http.Server of the debug task instead of being handed to the handler
	// Then: another packet put into the socket queue right behind this one, before
	// the daemon gets to run (a burst: the listener finds them all waiting).
	Then *Action `json:"then,omitempty"`

	// Machine state: kind fwd, autoconf, addrs, routes, link, ifup, ifdown, mac.
	On     bool     `json:"on,omitempty"`
	Addrs  []AddrW  `json:"addrs,omitempty"`
	Routes []RouteW `json:"routes,omitempty"`
	Oper   string   `json:"oper,omitempty"`
	MAC    string   `json:"mac,omitempty"`

	// Process: kind signal, http, release, watchend.
	Sig  string `json:"sig,omitempty"`
	Path string `json:"path,omitempty"`
	Hold string `json:"hold,omitempty"`
	Err  string `json:"err,omitempty"`
}

// A Fault decides what a seam does when the daemon calls it.
type Fault struct {
	Seam  string `json:"seam"` // write read deadline fwd auto.get auto.set rtnl.addr rtnl.route loopbacks dial log notify
	Node  int    `json:"node,omitempty"`
	If    string `json:"if,omitempty"`  // "" = any interface
	Key   string `json:"key,omitempty"` // write: "mc", "uc" or a destination; "" = any
	N     int    `json:"n,omitempty"`   // nth matching call (1-based); 0 = any
	From  int64  `json:"from,omitempty"`
	Count int    `json:"count,omitempty"` // how often it applies (default 1, -1 = always)
	Err   string `json:"err,omitempty"`
	Lat   int64  `json:"lat,omitempty"`  // fake ns the call takes
	Hold  string `json:"hold,omitempty"` // park until released
	Mode  string `json:"mode,omitempty"` // listings: perm, dup, empty; sysctl reads: sampled (value taken before the delay/hold)
	Arg   int64  `json:"arg,omitempty"`  // seed for perm/dup
	Skip  int    `json:"skip,omitempty"` // let this many matching calls (after From) pass first
}

// RASpec is a router advertisement sent by a simulated peer router, in wire
// units.
type RASpec struct {
	Hop      int       `json:"hop"`
	M        bool      `json:"m,omitempty"`
	O        bool      `json:"o,omitempty"`
	Pref     string    `json:"pref,omitempty"`    // low medium high
	Lifetime int       `json:"lifetime"`          // seconds
	Reach    int64     `json:"reach,omitempty"`   // ms
	Retrans  int64     `json:"retrans,omitempty"` // ms
	Opts     []OptSpec `json:"opts,omitempty"`
}

// OptSpec is one option of a peer RA.
type OptSpec struct {
	Kind    string   `json:"kind"` // prefix route rdnss dnssl mtu slla cp pref64 raw
	Prefix  string   `json:"prefix,omitempty"`
	OnLink  bool     `json:"on_link,omitempty"`
	Auto    bool     `json:"auto,omitempty"`
	Valid   uint32   `json:"valid,omitempty"`
	Pref    uint32   `json:"pref,omitempty"`
	RPref   string   `json:"rpref,omitempty"`
	Life    uint32   `json:"life,omitempty"`
	Servers []string `json:"servers,omitempty"`
	Domains []string `json:"domains,omitempty"`
	MTU     uint32   `json:"mtu,omitempty"`
	URI     string   `json:"uri,omitempty"`
	MAC     string   `json:"mac,omitempty"`
	Type    int      `json:"type,omitempty"`
	Raw     []byte   `json:"raw,omitempty"`
}

// ConfigSpec is a TOML-level description of a configuration file.
type ConfigSpec struct {
	Interfaces []IfaceSpec `json:"interfaces"`
	Debug      *DebugSpec  `json:"debug,omitempty"`
	Shuffle    uint64      `json:"shuffle,omitempty"` // key order seed
}

// DebugSpec is the [debug] table.
type DebugSpec struct {
	Address    string `json:"address"`
	Prometheus bool   `json:"prometheus,omitempty"`
	PProf      bool   `json:"pprof,omitempty"`
}

// IfaceSpec is one [[interfaces]] table. Nil pointers mean "key absent".
type IfaceSpec struct {
	Name            string       `json:"name,omitempty"`
	Names           []string     `json:"names,omitempty"`
	Advertise       bool         `json:"advertise,omitempty"`
	Monitor         bool         `json:"monitor,omitempty"`
	Verbose         bool         `json:"verbose,omitempty"`
	MaxInterval     *string      `json:"max_interval,omitempty"`
	MinInterval     *string      `json:"min_interval,omitempty"`
	Managed         *bool        `json:"managed,omitempty"`
	OtherConfig     *bool        `json:"other_config,omitempty"`
	ReachableTime   *string      `json:"reachable_time,omitempty"`
	RetransmitTimer *string      `json:"retransmit_timer,omitempty"`
	HopLimit        *int         `json:"hop_limit,omitempty"`
	DefaultLifetime *string      `json:"default_lifetime,omitempty"`
	UnicastOnly     bool         `json:"unicast_only,omitempty"`
	Preference      *string      `json:"preference,omitempty"`
	Prefixes        []PrefixSpec `json:"prefix,omitempty"`
	Routes          []RouteSpec  `json:"route,omitempty"`
	RDNSS           []RDNSSSpec  `json:"rdnss,omitempty"`
	DNSSL           []DNSSLSpec  `json:"dnssl,omitempty"`
	PREF64          []Pref64Spec `json:"pref64,omitempty"`
	MTU             *int         `json:"mtu,omitempty"`
	SourceLLA       *bool        `json:"source_lla,omitempty"`
	CaptivePortal   *string      `json:"captive_portal,omitempty"`
}

// PrefixSpec is one [[interfaces.prefix]] table.
type PrefixSpec struct {
	Prefix     *string `json:"prefix,omitempty"`
	OnLink     *bool   `json:"on_link,omitempty"`
	Autonomous *bool   `json:"autonomous,omitempty"`
	Valid      *string `json:"valid_lifetime,omitempty"`
	Preferred  *string `json:"preferred_lifetime,omitempty"`
	Deprecated bool    `json:"deprecated,omitempty"`
}

// RouteSpec is one [[interfaces.route]] table.
type RouteSpec struct {
	Prefix     *string `json:"prefix,omitempty"`
	Preference *string `json:"preference,omitempty"`
	Lifetime   *string `json:"lifetime,omitempty"`
	Deprecated bool    `json:"deprecated,omitempty"`
}

// RDNSSSpec is one [[interfaces.rdnss]] table.
type RDNSSSpec struct {
	Lifetime *string  `json:"lifetime,omitempty"`
	Servers  []string `json:"servers,omitempty"`
}

// DNSSLSpec is one [[interfaces.dnssl]] table.
type DNSSLSpec struct {
	Lifetime    *string  `json:"lifetime,omitempty"`
	DomainNames []string `json:"domain_names,omitempty"`
}

// Pref64Spec is one [[interfaces.pref64]] table.
type Pref64Spec struct {
	Prefix *string `json:"prefix,omitempty"`
}

// names returns the interface names an IfaceSpec configures.
func (s IfaceSpec) names() []string {
	if s.Name != "" {
		return []string{s.Name}
	}
	return s.Names
}

// TOML renders the configuration as text for the real parser. Key order within
// a table is shuffled by c.Shuffle (TOML is order-insensitive for keys; array
// tables keep their order because order is meaningful there).
func (c ConfigSpec) TOML() string {
	var sb strings.Builder
	rng := verifsim.NewRNG(c.Shuffle + 1)

	kv := func(indent string, pairs []string) {
		if c.Shuffle != 0 {
			p := rng.Perm(len(pairs))
			out := make([]string, len(pairs))
			for i, j := range p {
				out[i] = pairs[j]
			}
			pairs = out
		}
		for _, p := range pairs {
			sb.WriteString(indent + p + "\n")
		}
	}
	q := func(s string) string { return fmt.Sprintf("%q", s) }
	qs := func(ss []string) string {
		o := make([]string, len(ss))
		for i, s := range ss {
			o[i] = q(s)
		}
		return "[" + strings.Join(o, ", ") + "]"
	}

	for _, ifi := range c.Interfaces {
		sb.WriteString("[[interfaces]]\n")
		var p []string
		if ifi.Name != "" {
			p = append(p, "name = "+q(ifi.Name))
		}
		if len(ifi.Names) > 0 {
			p = append(p, "names = "+qs(ifi.Names))
		}
		if ifi.Advertise {
			p = append(p, "advertise = true")
		}
		if ifi.Monitor {
			p = append(p, "monitor = true")
		}
		if ifi.Verbose {
			p = append(p, "verbose = true")
		}
		if ifi.UnicastOnly {
			p = append(p, "unicast_only = true")
		}
		str := func(k string, v *string) {
			if v != nil {
				p = append(p, k+" = "+q(*v))
			}
		}
		bl := func(k string, v *bool) {
			if v != nil {
				p = append(p, fmt.Sprintf("%s = %t", k, *v))
			}
		}
		in := func(k string, v *int) {
			if v != nil {
				p = append(p, fmt.Sprintf("%s = %d", k, *v))
			}
		}
		str("max_interval", ifi.MaxInterval)
		str("min_interval", ifi.MinInterval)
		bl("managed", ifi.Managed)
		bl("other_config", ifi.OtherConfig)
		str("reachable_time", ifi.ReachableTime)
		str("retransmit_timer", ifi.RetransmitTimer)
		in("hop_limit", ifi.HopLimit)
		str("default_lifetime", ifi.DefaultLifetime)
		str("preference", ifi.Preference)
		in("mtu", ifi.MTU)
		bl("source_lla", ifi.SourceLLA)
		str("captive_portal", ifi.CaptivePortal)
		kv("", p)

		for _, x := range ifi.Prefixes {
			sb.WriteString("  [[interfaces.prefix]]\n")
			p = nil
			str("prefix", x.Prefix)
			bl("on_link", x.OnLink)
			bl("autonomous", x.Autonomous)
			str("valid_lifetime", x.Valid)
			str("preferred_lifetime", x.Preferred)
			if x.Deprecated {
				p = append(p, "deprecated = true")
			}
			kv("  ", p)
		}
		for _, x := range ifi.Routes {
			sb.WriteString("  [[interfaces.route]]\n")
			p = nil
			str("prefix", x.Prefix)
			str("preference", x.Preference)
			str("lifetime", x.Lifetime)
			if x.Deprecated {
				p = append(p, "deprecated = true")
			}
			kv("  ", p)
		}
		for _, x := range ifi.RDNSS {
			sb.WriteString("  [[interfaces.rdnss]]\n")
			p = nil
			str("lifetime", x.Lifetime)
			if x.Servers != nil {
				p = append(p, "servers = "+qs(x.Servers))
			}
			kv("  ", p)
		}
		for _, x := range ifi.DNSSL {
			sb.WriteString("  [[interfaces.dnssl]]\n")
			p = nil
			str("lifetime", x.Lifetime)
			if x.DomainNames != nil {
				p = append(p, "domain_names = "+qs(x.DomainNames))
			}
			kv("  ", p)
		}
		for _, x := range ifi.PREF64 {
			sb.WriteString("  [[interfaces.pref64]]\n")
			p = nil
			str("prefix", x.Prefix)
			kv("  ", p)
		}
		sb.WriteString("\n")
	}

	if d := c.Debug; d != nil {
		sb.WriteString("[debug]\n")
		p := []string{"address = " + q(d.Address)}
		if d.Prometheus {
			p = append(p, "prometheus = true")
		}
		if d.PProf {
			p = append(p, "pprof = true")
		}
		kv("", p)
	}

	return sb.String()
}

// sortActions orders actions by time, stably.
func sortActions(a []Action) {
	sort.SliceStable(a, func(i, j int) bool { return a[i].At < a[j].At })
}

func sp(s string) *string { return &s }
func bp(b bool) *bool     { return &b }
func ip(i int) *int       { return &i }
