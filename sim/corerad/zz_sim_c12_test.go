package corerad

// C12 — other routers' RAs: exactly the RFC 4861 6.2.7 inconsistencies are
// reported. Peer routers live on the simulated link; one of them may be a
// second real CoreRAD instance.

import (
	"fmt"
	"sort"
	"strings"
	"time"

	"github.com/mdlayher/corerad/internal/verifsim"
	"github.com/mdlayher/ndp"
)

// inconsistency is one expected report: class of field, details label.
type inconsistency struct{ class, details string }

func (i inconsistency) String() string { return i.class + "(" + i.details + ")" }

// fieldClass maps a field label of the inconsistency counter to its meaning by
// keywords, so that a reworded label with the same meaning is not an alarm.
func fieldClass(field string) string {
	f := strings.ToLower(field)
	has := func(s ...string) bool {
		for _, x := range s {
			if !strings.Contains(f, x) {
				return false
			}
		}
		return true
	}
	switch {
	case has("hop"):
		return "hop"
	case has("managed"):
		return "managed"
	case has("other"):
		return "other"
	case has("reachable"):
		return "reachable"
	case has("retrans"):
		return "retransmit"
	case has("mtu"):
		return "mtu"
	case has("prefix", "preferred"):
		return "prefix-preferred"
	case has("prefix", "valid"):
		return "prefix-valid"
	case has("route"):
		return "route-lifetime"
	case has("rdnss", "count"):
		return "rdnss-count"
	case has("rdnss", "lifetime"):
		return "rdnss-lifetime"
	case has("rdnss"):
		return "rdnss-servers"
	case has("dnssl", "count"):
		return "dnssl-count"
	case has("dnssl", "lifetime"):
		return "dnssl-lifetime"
	case has("dnssl"):
		return "dnssl-names"
	case has("captive"):
		return "captive-portal"
	}
	return "unknown:" + field
}

// verifyModel lists the inconsistencies RFC 4861 6.2.7 (and the documented
// extensions) define between our RA (model, wire units) and theirs (decoded).
// ok=false: a clock-dependent value of ours makes the expectation ambiguous.
func verifyModel(own *modelOut, theirs *ndp.RouterAdvertisement) (out []inconsistency, slack map[string]int, hopDontCare bool, ok bool) {
	ok = true
	slack = map[string]int{}
	if own.hop != int(theirs.CurrentHopLimit) {
		if own.hop == 0 || theirs.CurrentHopLimit == 0 {
			hopDontCare = true // "unspecified" on one side
		} else {
			out = append(out, inconsistency{"hop", ""})
		}
	}
	if own.managed != theirs.ManagedConfiguration {
		out = append(out, inconsistency{"managed", ""})
	}
	if own.other != theirs.OtherConfiguration {
		out = append(out, inconsistency{"other", ""})
	}
	if a, b := own.reachMs, theirs.ReachableTime.Milliseconds(); a != 0 && b != 0 && a != b {
		out = append(out, inconsistency{"reachable", ""})
	}
	if a, b := own.retrMs, theirs.RetransmitTimer.Milliseconds(); a != 0 && b != 0 && a != b {
		out = append(out, inconsistency{"retransmit", ""})
	}
	var oMTU, oCP *eopt
	var oPfx, oRt, oDNS, oSL []*eopt
	for i := range own.opts {
		o := &own.opts[i]
		switch o.kind {
		case "mtu":
			if oMTU == nil {
				oMTU = o
			}
		case "cp":
			if oCP == nil {
				oCP = o
			}
		case "prefix":
			oPfx = append(oPfx, o)
		case "route":
			oRt = append(oRt, o)
		case "rdnss":
			oDNS = append(oDNS, o)
		case "dnssl":
			oSL = append(oSL, o)
		}
	}
	var tMTU *ndp.MTU
	var tCP *ndp.CaptivePortal
	var tPfx []*ndp.PrefixInformation
	var tRt []*ndp.RouteInformation
	var tDNS []*ndp.RecursiveDNSServer
	var tSL []*ndp.DNSSearchList
	for _, o := range theirs.Options {
		switch o := o.(type) {
		case *ndp.MTU:
			if tMTU == nil {
				tMTU = o
			}
		case *ndp.CaptivePortal:
			if tCP == nil {
				tCP = o
			}
		case *ndp.PrefixInformation:
			tPfx = append(tPfx, o)
		case *ndp.RouteInformation:
			tRt = append(tRt, o)
		case *ndp.RecursiveDNSServer:
			tDNS = append(tDNS, o)
		case *ndp.DNSSearchList:
			tSL = append(tSL, o)
		}
	}
	if oMTU != nil && tMTU != nil && oMTU.num != int64(tMTU.MTU) {
		out = append(out, inconsistency{"mtu", ""})
	}
	// cmp compares a lifetime of ours (possibly an interval) with theirs.
	cmp := func(o *eopt, idx int, theirs time.Duration) (differ bool) {
		t := secs(theirs)
		if o.lo[idx] == o.hi[idx] {
			return o.lo[idx] != t
		}
		if t < o.lo[idx] || t > o.hi[idx] {
			return true
		}
		ok = false // inside the interval: depends on the exact clock reading
		return false
	}
	for _, a := range oPfx {
		for _, b := range tPfx {
			if a.pfx.Addr() != b.Prefix || a.pfx.Bits() != int(b.PrefixLength) {
				continue
			}
			d := a.pfx.String()
			if cmp(a, 1, b.PreferredLifetime) {
				out = append(out, inconsistency{"prefix-preferred", d})
			}
			if cmp(a, 0, b.ValidLifetime) {
				out = append(out, inconsistency{"prefix-valid", d})
			}
		}
	}
	for _, a := range oRt {
		for _, b := range tRt {
			if a.pfx.Addr() != b.Prefix || a.pfx.Bits() != int(b.PrefixLength) {
				continue
			}
			if a.rpref == prefName(b.Preference) && cmp(a, 0, b.RouteLifetime) {
				out = append(out, inconsistency{"route-lifetime", a.pfx.String()})
			}
		}
	}
	// Lists of RDNSS / DNSSL options: the count must match; how the options of
	// two equally long lists are paired up is not specified, so with more than
	// one option the number of lifetime / content reports is bounded by the
	// minimum and maximum over all pairings (returned as ranges), with a single
	// option it is exact.
	listDiffs := func(kind string, n int, lifeDiff, contDiff func(i, j int) bool) {
		perm := make([]int, n)
		for i := range perm {
			perm[i] = i
		}
		minL, maxL, minC, maxC := n+1, -1, n+1, -1
		var rec func(k int)
		rec = func(k int) {
			if k == n {
				l, c := 0, 0
				for i, j := range perm {
					if lifeDiff(i, j) {
						l++
					}
					if contDiff(i, j) {
						c++
					}
				}
				if l < minL {
					minL = l
				}
				if l > maxL {
					maxL = l
				}
				if c < minC {
					minC = c
				}
				if c > maxC {
					maxC = c
				}
				return
			}
			for i := k; i < n; i++ {
				perm[k], perm[i] = perm[i], perm[k]
				rec(k + 1)
				perm[k], perm[i] = perm[i], perm[k]
			}
		}
		rec(0)
		for i := 0; i < minL; i++ {
			out = append(out, inconsistency{kind + "-lifetime", ""})
		}
		for i := 0; i < minC; i++ {
			out = append(out, inconsistency{kind + "-" + map[string]string{"rdnss": "servers", "dnssl": "names"}[kind], ""})
		}
		slack[kind+"-lifetime"] = maxL - minL
		slack[kind+"-"+map[string]string{"rdnss": "servers", "dnssl": "names"}[kind]] = maxC - minC
	}
	if len(oDNS) > 0 && len(tDNS) > 0 {
		if len(oDNS) != len(tDNS) {
			out = append(out, inconsistency{"rdnss-count", ""})
		} else if len(oDNS) <= 5 {
			listDiffs("rdnss", len(oDNS),
				func(i, j int) bool { return cmp(oDNS[i], 0, tDNS[j].Lifetime) },
				func(i, j int) bool {
					ts := make([]string, len(tDNS[j].Servers))
					for k, s := range tDNS[j].Servers {
						ts[k] = s.String()
					}
					return strings.Join(ts, ",") != strings.Join(oDNS[i].list, ",")
				})
		} else {
			ok = false
		}
	}
	if len(oSL) > 0 && len(tSL) > 0 {
		if len(oSL) != len(tSL) {
			out = append(out, inconsistency{"dnssl-count", ""})
		} else if len(oSL) <= 5 {
			listDiffs("dnssl", len(oSL),
				func(i, j int) bool { return cmp(oSL[i], 0, tSL[j].Lifetime) },
				func(i, j int) bool { return strings.Join(tSL[j].DomainNames, ",") != strings.Join(oSL[i].list, ",") })
		} else {
			ok = false
		}
	}
	if oCP != nil && tCP != nil && oCP.str != tCP.URI {
		out = append(out, inconsistency{"captive-portal", ""})
	}
	return out, slack, hopDontCare, ok
}

// Small value domains shared by our configuration and the peer's RA, so that
// equal / different / absent all happen often.
var (
	c12Hops   = []int{0, 64, 255}
	c12Timers = []int64{0, 1000, 30000}
	c12Life   = []uint32{600, 1800, 0xffffffff}
	c12Pfx    = []string{"2001:db8:1::/64", "2001:db8:2::/64", "fd00:3::/48"}
	c12Rt     = []string{"2001:db8:100::/48", "fd00:200::/32"}
	c12DNS    = [][]string{{"2001:db8::53"}, {"2001:db8::53", "2001:db8::54"}, {"2001:db8::54", "2001:db8::53"}}
	c12SL     = [][]string{{"example.com"}, {"example.com", "lan.example.org"}, {"lan.example.org"}}
	c12MTU    = []int{1280, 1500}
	c12CP     = []string{"https://portal.example.com/api", "https://other.example.org/"}
)

func lifeStr(l uint32) string {
	if l == 0xffffffff {
		return "infinite"
	}
	return secStr(int(l))
}

func c12Own(rng *verifsim.RNG, s *IfaceSpec) {
	s.HopLimit = ip(c12Hops[rng.Intn(3)])
	s.Managed, s.OtherConfig = bp(rng.Bool(0.5)), bp(rng.Bool(0.5))
	s.ReachableTime = sp(fmt.Sprintf("%dms", c12Timers[rng.Intn(3)]))
	s.RetransmitTimer = sp(fmt.Sprintf("%dms", c12Timers[rng.Intn(3)]))
	for _, pf := range c12Pfx {
		if rng.Bool(0.5) {
			v := c12Life[1+rng.Intn(2)]
			q := c12Life[rng.Intn(2)]
			s.Prefixes = append(s.Prefixes, PrefixSpec{Prefix: sp(pf), Valid: sp(lifeStr(v)), Preferred: sp(lifeStr(q))})
		}
	}
	for _, rt := range c12Rt {
		if rng.Bool(0.5) {
			s.Routes = append(s.Routes, RouteSpec{Prefix: sp(rt), Preference: sp([]string{"low", "medium", "high"}[rng.Intn(3)]), Lifetime: sp(lifeStr(c12Life[rng.Intn(3)]))})
		}
	}
	for i, k := 0, rng.Pick(4, 4, 2, 1); i < k; i++ {
		s.RDNSS = append(s.RDNSS, RDNSSSpec{Servers: c12DNS[rng.Intn(2)], Lifetime: sp(lifeStr(c12Life[rng.Intn(3)]))}) // sorted lists only: the parser sorts
	}
	for i, k := 0, rng.Pick(4, 4, 2, 1); i < k; i++ {
		s.DNSSL = append(s.DNSSL, DNSSLSpec{DomainNames: c12SL[rng.Intn(3)], Lifetime: sp(lifeStr(c12Life[rng.Intn(3)]))})
	}
	if rng.Bool(0.5) {
		s.MTU = ip(c12MTU[rng.Intn(2)])
	}
	if rng.Bool(0.5) {
		s.CaptivePortal = sp(c12CP[rng.Intn(2)])
	}
}

func c12Peer(rng *verifsim.RNG) *RASpec {
	ra := &RASpec{Hop: c12Hops[rng.Intn(3)], M: rng.Bool(0.5), O: rng.Bool(0.5), Lifetime: 1800,
		Reach: c12Timers[rng.Intn(3)], Retrans: c12Timers[rng.Intn(3)], Pref: []string{"low", "medium", "high"}[rng.Intn(3)]}
	for _, pf := range c12Pfx {
		if rng.Bool(0.5) {
			ra.Opts = append(ra.Opts, OptSpec{Kind: "prefix", Prefix: pf, OnLink: rng.Bool(0.5), Auto: rng.Bool(0.5), Valid: c12Life[rng.Intn(3)], Pref: c12Life[rng.Intn(3)]})
			if rng.Bool(0.25) {
				// the same base address once more: another length (an on-link
				// /48 next to the /64) or the very same prefix repeated; every
				// option is compared in its own right
				sib := pf
				if rng.Bool(0.6) {
					sib = strings.Replace(pf, "/64", "/48", 1)
				}
				o := OptSpec{Kind: "prefix", Prefix: sib, OnLink: rng.Bool(0.5), Auto: rng.Bool(0.5), Valid: c12Life[rng.Intn(3)], Pref: c12Life[rng.Intn(3)]}
				if rng.Bool(0.5) {
					ra.Opts = append(ra.Opts, o)
				} else {
					ra.Opts = append(ra.Opts[:len(ra.Opts)-1], o, ra.Opts[len(ra.Opts)-1])
				}
			}
		}
	}
	for _, rt := range c12Rt {
		if rng.Bool(0.5) {
			ra.Opts = append(ra.Opts, OptSpec{Kind: "route", Prefix: rt, RPref: []string{"low", "medium", "high"}[rng.Intn(3)], Life: c12Life[rng.Intn(3)]})
		}
	}
	for i, k := 0, rng.Pick(4, 4, 2, 1); i < k; i++ {
		ra.Opts = append(ra.Opts, OptSpec{Kind: "rdnss", Servers: c12DNS[rng.Intn(3)], Life: c12Life[rng.Intn(3)]})
	}
	for i, k := 0, rng.Pick(4, 4, 2, 1); i < k; i++ {
		ra.Opts = append(ra.Opts, OptSpec{Kind: "dnssl", Domains: c12SL[rng.Intn(3)], Life: c12Life[rng.Intn(3)]})
	}
	if rng.Bool(0.5) {
		ra.Opts = append(ra.Opts, OptSpec{Kind: "mtu", MTU: uint32(c12MTU[rng.Intn(2)])})
	}
	if rng.Bool(0.5) {
		ra.Opts = append(ra.Opts, OptSpec{Kind: "cp", URI: c12CP[rng.Intn(2)]})
	}
	if rng.Bool(0.3) {
		ra.Opts = append(ra.Opts, OptSpec{Kind: "slla", MAC: "02:00:00:00:00:77"})
	}
	if rng.Bool(0.2) {
		ra.Opts = append(ra.Opts, OptSpec{Kind: "raw", Type: 222, Raw: make([]byte, 6)})
	}
	// option order on the wire is the peer's business
	pm := rng.Perm(len(ra.Opts))
	o2 := make([]OptSpec, len(ra.Opts))
	for i, j := range pm {
		o2[i] = ra.Opts[j]
	}
	ra.Opts = o2
	return ra
}

func c12Gen(rng *verifsim.RNG, idx int, tier string) *Plan {
	p := oneAdvertiser(rng)
	n := &p.Nodes[0]
	s := &n.Config.Interfaces[0]
	s.MaxInterval = sp([]string{"4s", "8s", "600s"}[rng.Intn(3)])
	s.Verbose = rng.Bool(0.2)
	horizon := rng.Dur(4*time.Second, 30*time.Second)
	p.Horizon = int64(horizon)

	switch rng.Pick(3, 2, 5, 2, 3, 2) {
	case 5:
		// a peer RA whose receive completes just as the connection generation is
		// being cancelled (link down, or the stop): it was received, so it is judged
		p.Class = "race-with-teardown"
		c12Own(rng, s)
		t0 := int64(rng.Dur(time.Second, 10*time.Second)) + jitter(rng)
		peer := c12Peer(rng)
		peer.M = !boolOf(s.Managed, false) // certainly inconsistent
		p.Faults = append(p.Faults, Fault{Seam: "read.post", From: t0 - 1, Hold: "hr"})
		p.Actions = append(p.Actions, Action{At: t0, Kind: "ra", If: "eth0", Src: "fe80::5:1", RA: peer})
		if rng.Bool(0.5) {
			p.Actions = append(p.Actions, Action{At: t0 + nsMs, Kind: "link", If: "eth0", Oper: "down"})
			p.Horizon = t0 + 3*nsSec
		} else {
			p.Actions = append(p.Actions, Action{At: t0 + nsMs, Kind: "signal", Sig: []string{"SIGTERM", "SIGHUP"}[rng.Intn(2)]})
			p.Horizon = t0 + 2*nsSec
		}
		p.Actions = append(p.Actions, Action{At: t0 + 2*nsMs, Kind: "release", Hold: "hr"})
		return p
	case 4:
		// our own RA changes while peers keep talking: a wildcard prefix whose
		// expansion follows the interface's addresses, deprecated stanzas counting
		// down; every peer RA must be judged against the RA we would send *now*
		p.Class = "dynamic-own"
		s.Prefixes = []PrefixSpec{{Prefix: sp("::/64"), Valid: sp("1800s"), Preferred: sp("600s")}}
		if rng.Bool(0.5) {
			s.Routes = []RouteSpec{{Prefix: sp("::/0"), Lifetime: sp("1800s")}}
		}
		iw := &n.Ifaces[0]
		pool := []string{"2001:db8:1::1/64", "2001:db8:2::1/64", "fd00:3::1/64"}
		table := func() []AddrW {
			as := []AddrW{{CIDR: iw.LL + "/64", Forever: true}}
			for _, a := range pool {
				if rng.Bool(0.5) {
					as = append(as, AddrW{CIDR: a})
				}
			}
			return as
		}
		iw.Addrs = table()
		peer := func() *RASpec {
			ra := &RASpec{Hop: 64, Lifetime: 1800}
			for _, pf := range []string{"2001:db8:1::/64", "2001:db8:2::/64", "fd00:3::/64"} {
				if rng.Bool(0.7) {
					ra.Opts = append(ra.Opts, OptSpec{Kind: "prefix", Prefix: pf, OnLink: true, Auto: true,
						Valid: []uint32{1800, 900}[rng.Intn(2)], Pref: []uint32{600, 300}[rng.Intn(2)]})
				}
			}
			return ra
		}
		t := int64(0)
		for i, k := 0, rng.Range(3, 8); i < k; i++ {
			t += int64(rng.Dur(100*time.Millisecond, 3*time.Second))
			if rng.Bool(0.5) {
				p.Actions = append(p.Actions, Action{At: t + jitter(rng), Kind: "addrs", If: "eth0", Addrs: table()})
				t += int64(rng.Dur(10*time.Millisecond, time.Second))
			}
			p.Actions = append(p.Actions, Action{At: t + jitter(rng), Kind: "ra", If: "eth0", Src: "fe80::5:1", RA: peer()})
		}
		if rng.Bool(0.4) {
			// the build of our own RA made to check a neighbour is stuck in its
			// address listing while a solicited RA is built and sent from the same
			// stanzas: the check is still made against the whole of our RA
			p.Class += "+overlapping-build"
			t += int64(rng.Dur(time.Second, 3*time.Second))
			p.Faults = append(p.Faults, Fault{Seam: "rtnl.addr", If: "eth0", From: t, Count: 1, Hold: "hv"})
			p.Actions = append(p.Actions,
				Action{At: t + 1000, Kind: "ra", If: "eth0", Src: "fe80::5:1", RA: peer()},
				rsAction(t+100*nsMs, hostAddr(0)),
				Action{At: t + 900*nsMs, Kind: "release", Hold: "hv"})
			t += nsSec
		}
		p.Horizon = t + 2*nsSec
		if !strings.Contains(p.Class, "overlapping-build") && rng.Bool(0.3) {
			// a second advertising interface configured by the same stanza
			// (names = [...]) but with addresses of its own: each checks its
			// neighbours against its own RA
			secondInterface(rng, p)
			n = &p.Nodes[0]
			if c := &n.Config.Interfaces[0]; c.Name != "" {
				c.Names, c.Name = []string{"eth0", "eth1"}, ""
				n.Config.Interfaces = n.Config.Interfaces[:1]
			}
			n.Ifaces[1].Addrs = []AddrW{{CIDR: n.Ifaces[1].LL + "/64", Forever: true}, {CIDR: "2001:db8:9::1/64"}, {CIDR: "fd00:9::1/64"}}
			p.Class += "+names-group"
		}
	case 0:
		// twin: a second real CoreRAD with the same configuration on the same link
		p.Class = "twin"
		genIfaceSpec(rng, s, cfgOpts{frac: false, wildcards: false, deprecated: false, intervals: true})
		if rng.Bool(0.3) {
			p.Class = "twin-subunit"
			genIfaceSpec(rng, s, cfgOpts{frac: true, wildcards: false, deprecated: rng.Bool(0.5), intervals: true})
		}
		s.MaxInterval = sp([]string{"4s", "6s"}[rng.Intn(2)])
		s.MinInterval = nil
		n.Ifaces[0].Link = "lan"
		n2 := NodeSpec{Config: n.Config, Ifaces: []IfaceW{n.Ifaces[0]}}
		n2.Ifaces[0].Index = 7
		n2.Ifaces[0].MAC = "02:00:00:00:00:22"
		n2.Ifaces[0].LL = "fe80::22"
		n2.Ifaces[0].Addrs = []AddrW{{CIDR: "fe80::22/64", Forever: true}}
		p.Nodes = append(p.Nodes, n2)
		for i, k := 0, rng.Range(0, 4); i < k; i++ {
			a := rsAction(int64(rng.Dur(0, horizon))+jitter(rng), "::")
			a.Node = rng.Intn(2)
			p.Actions = append(p.Actions, a)
		}
	case 1:
		// echo: our own RA, captured from the wire and re-sent by someone else
		p.Class = "echo"
		genIfaceSpec(rng, s, cfgOpts{frac: false, wildcards: false, deprecated: false, intervals: true})
		for i, k := 0, rng.Range(1, 4); i < k; i++ {
			p.Actions = append(p.Actions, Action{At: int64(rng.Dur(100*time.Millisecond, horizon)) + jitter(rng), Kind: "echo", If: "eth0", Src: "fe80::ec:40"})
		}
	case 2:
		// perturbed peer over a small value domain
		p.Class = "perturbed"
		c12Own(rng, s)
		for i, k := 0, rng.Range(1, 6); i < k; i++ {
			a := Action{At: int64(rng.Dur(0, horizon)) + jitter(rng), Kind: "ra", If: "eth0", Src: fmt.Sprintf("fe80::5:%x", rng.Intn(3)+1), RA: c12Peer(rng)}
			p.Actions = append(p.Actions, a)
			if rng.Bool(0.25) {
				// the same router again, at once or within a second or two, with
				// other contents: every RA is judged on its own
				b := a
				b.RA = c12Peer(rng)
				b.At += []int64{1, int64(rng.Dur(time.Millisecond, 2500*time.Millisecond))}[rng.Intn(2)]
				p.Actions = append(p.Actions, b)
			}
		}
		if rng.Bool(0.2) {
			p.Actions = append(p.Actions, Action{At: int64(rng.Dur(0, horizon)) + jitter(rng), Kind: "fwd", If: "eth0", On: false})
		}
		if rng.Bool(0.2) {
			// two advertising interfaces, each handed a neighbour's RA in the same
			// instant, the one stepping back in the middle of reporting what it
			// found: each reports its own findings
			secondInterface(rng, p)
			p.Class += "+both-at-once"
			for i, k := 0, rng.Range(1, 4); i < k; i++ {
				a := Action{At: int64(rng.Dur(0, horizon)) + jitter(rng), Kind: "ra", If: "eth0", Src: "fe80::5:1", RA: c12Peer(rng)}
				b := Action{Kind: "ra", If: "eth1", Src: "fe80::5:2", RA: c12Peer(rng)}
				a.Then = &b
				p.Actions = append(p.Actions, a)
			}
			p.Sched = rng.U64() | 1
			p.Bias = map[string]uint64{"": uint64(rng.Intn(2)), "loop@advertise.go": 3}
		}
	default:
		p.Class = "random"
		genIfaceSpec(rng, s, cfgOpts{frac: false, wildcards: false, deprecated: false, intervals: true})
		// keep at most one RDNSS / DNSSL stanza: how several are paired is not specified
		if len(s.RDNSS) > 1 {
			s.RDNSS = s.RDNSS[:1]
		}
		if len(s.DNSSL) > 1 {
			s.DNSSL = s.DNSSL[:1]
		}
		for i, k := 0, rng.Range(1, 5); i < k; i++ {
			ra := genPeerRA(rng, true)
			// no repeated prefixes, at most one RDNSS/DNSSL
			seen := map[string]bool{}
			var opts []OptSpec
			for _, o := range ra.Opts {
				key := o.Kind + o.Prefix
				if seen[key] {
					continue
				}
				seen[key] = true
				opts = append(opts, o)
			}
			ra.Opts = opts
			p.Actions = append(p.Actions, Action{At: int64(rng.Dur(0, horizon)) + jitter(rng), Kind: "ra", If: "eth0", Src: "fe80::5:9", RA: ra})
		}
	}
	if !strings.HasPrefix(p.Class, "twin") {
		maybeReinit(rng, p, "eth0", 100*nsMs, p.Horizon, 0.2)
	}
	return p
}

func c12Oracle(info *runInfo, res *verifsim.Result) {
	for _, r := range info.rejected {
		if r != "" {
			res.Skipped = "config_rejected"
			return
		}
	}
	h := analyse(info.ev)
	selfClass := strings.HasPrefix(info.plan.Class, "twin") || info.plan.Class == "echo"

	bySeq := map[int]*rx{}
	for _, g := range h.gens {
		for _, r := range g.rxs {
			bySeq[r.seq] = r
		}
	}
	type span struct {
		r       *rx
		g       int
		build   *build
		counted []inconsistency
		hooks   int
		logs    int
		unknown []string
	}
	var spans []*span
	cur := map[string]*span{} // node|if -> span in progress
	buildBySeq := map[int]*build{}
	for _, b := range h.builds {
		buildBySeq[b.seq] = b
	}
	for i := range h.ev {
		e := &h.ev[i]
		key := fmt.Sprintf("%d|%s", e.Node, e.If)
		if e.K == "read.exit" && e.Err == "" {
			r := bySeq[e.Seq]
			delete(cur, key)
			if r == nil || r.hop != 255 {
				continue
			}
			if _, ok := r.msg.(*ndp.RouterAdvertisement); !ok {
				continue
			}
			if info.cfgs[e.Node] == nil || !info.plan.Nodes[e.Node].Config.ifaceSpecFor(e.If).Advertise {
				continue
			}
			sp := &span{r: r, g: e.G}
			cur[key] = sp
			spans = append(spans, sp)
			continue
		}
		// effects are made by the listener goroutine; metric and hook events carry no interface
		for k, sp := range cur {
			if e.G != sp.g || e.Node != sp.r.node {
				continue
			}
			switch e.K {
			case "read.enter":
				delete(cur, k)
			case "fwd.enter":
				if sp.build == nil {
					sp.build = buildBySeq[e.Seq]
				}
			case "counter":
				pre := "corerad_advertiser_inconsistencies_total{interface=" + sp.r.ifn + ","
				if strings.HasPrefix(e.S, pre) {
					// details=...,field=...
					rest := strings.TrimSuffix(strings.TrimPrefix(e.S, pre), "}")
					var det, field string
					if i := strings.LastIndex(rest, ",field="); i >= 0 {
						det, field = strings.TrimPrefix(rest[:i], "details="), rest[i+len(",field="):]
					}
					c := fieldClass(field)
					if strings.HasPrefix(c, "unknown:") {
						sp.unknown = append(sp.unknown, field)
					}
					sp.counted = append(sp.counted, inconsistency{c, det})
				}
			case "inconsistent":
				sp.hooks++
			case "log":
				if strings.Contains(e.S, "inconsistency ") && strings.HasPrefix(e.S, sp.r.ifn+": ") {
					sp.logs++
				}
			}
		}
	}

	judged := 0
	for _, sp := range spans {
		r := sp.r
		theirs := r.msg.(*ndp.RouterAdvertisement)
		if sp.build == nil {
			if stopT, _, _ := stopInstant(h, r.node); stopT != 0 && r.t >= stopT {
				continue // stop arrived first
			}
			// Our own RA was not rebuilt for this peer RA (a cached copy?): judge the
			// report against the RA we would send now, from the world's state.
			sp.build = &build{node: r.node, ifn: r.ifn, t1: r.t, t2: r.t, fwd: worldFwdAt(info, r.node, r.ifn, r.seq)}
			spec0 := info.plan.Nodes[r.node].Config.ifaceSpecFor(r.ifn)
			for _, pf := range spec0.Prefixes {
				if pf.Prefix == nil || *pf.Prefix == "" || *pf.Prefix == "::/64" {
					sp.build.addr = append(sp.build.addr, worldAddrsAt(info, r.node, r.ifn, r.seq))
				}
			}
			for _, rd := range spec0.RDNSS {
				auto := len(rd.Servers) == 0
				for _, sv := range rd.Servers {
					if sv == "::" {
						auto = true
					}
				}
				if auto {
					sp.build.addr = append(sp.build.addr, worldAddrsAt(info, r.node, r.ifn, r.seq))
				}
			}
			for _, rt := range spec0.Routes {
				if rt.Prefix == nil || *rt.Prefix == "" || *rt.Prefix == "::/0" {
					sp.build.routes = append(sp.build.routes, routeListString(info.plan.Loop))
				}
			}
		}
		spec := info.plan.Nodes[r.node].Config.ifaceSpecFor(r.ifn)
		g := h.byKey[genKey(r.node, r.ifn, r.gen)]
		// "CoreRAD's own RA" is the one of this interface as it is now: an address
		// listing taken from another interface index (the one this name had before
		// it was re-created) compares the neighbour with somebody else's RA
		if g != nil && g.index != 0 {
			foreign := false
			for i, idx := range sp.build.addrIdx {
				if idx != g.index {
					res.Violate("C12.exact", "foreign-own-ra", "%s (node %d): RA from %s received at %s was checked against an own RA whose address listing #%d came from interface index %d, not from %s (index %d)", r.ifn, r.node, r.src, ms(r.t), i, idx, r.ifn, g.index)
					foreign = true
					break
				}
			}
			if foreign {
				continue
			}
		}
		in := modelIn{spec: spec, fwd: sp.build.fwd, addr: sp.build.addr, routes: sp.build.routes, nLoop: 1,
			epoch: info.epochs[r.node], t1: sp.build.t1, t2: sp.build.t2}
		if g != nil {
			in.mac = g.mac
		}
		own := expectRA(in)
		if own.fail != "" || len(own.unrep) > 0 {
			continue
		}
		want, slack, hopDC, ok := verifyModel(own, theirs)
		if !ok {
			res.Probe("ambiguous_clock_dependent")
			continue
		}
		judged++
		got := append([]inconsistency(nil), sp.counted...)
		if hopDC {
			// hop limit 0 = unspecified on one side: reporting it or not are both accepted
			var g2 []inconsistency
			for _, x := range got {
				if x.class != "hop" {
					g2 = append(g2, x)
				}
			}
			got = g2
		}
		// pairing slack: up to slack[class] additional reports of a list class are legal
		if len(slack) > 0 {
			cntW := map[string]int{}
			for _, x := range want {
				cntW[x.class]++
			}
			cntG := map[string]int{}
			var g2 []inconsistency
			for _, x := range got {
				cntG[x.class]++
				if sl, isList := slack[x.class]; isList && cntG[x.class] > cntW[x.class] && cntG[x.class] <= cntW[x.class]+sl {
					continue
				}
				g2 = append(g2, x)
			}
			got = g2
		}
		ws, gs := incStrings(want), incStrings(got)
		where := fmt.Sprintf("%s (node %d): RA from %s received at %s", r.ifn, r.node, r.src, ms(r.t))
		if len(sp.unknown) > 0 {
			res.Violate("C12.exact", "unknown-field", "%s: inconsistency counted under unrecognised field label(s) %v", where, sp.unknown)
		}
		if strings.Join(ws, ";") != strings.Join(gs, ";") {
			rule, sig := "C12.exact", "exact"
			extra, missing := diffLists(gs, ws), diffLists(ws, gs)
			if selfClass {
				rule, sig = "C12.self", "self:"+firstClass(extra)
				if strings.Contains(info.plan.Class, "subunit") {
					sig = "self.subunit:" + firstClass(extra)
				}
			} else if len(extra) > 0 {
				sig = "spurious:" + firstClass(extra)
			} else {
				sig = "missing:" + firstClass(missing)
			}
			res.Violate(rule, sig, "%s: reported inconsistencies differ from RFC 4861 6.2.7\n  spurious: %v\n  missing:  %v\n  ours:   %s %v\n  theirs: %s %v",
				where, extra, missing, own.hdr, own.opts, hdrOf(theirs), wireOpts(theirs))
		}
		wantHook := 0
		if len(sp.counted) > 0 {
			wantHook = 1
		}
		if sp.hooks != wantHook {
			res.Violate("C12.hook", "hook", "%s: notification hook fired %d times for %d counted inconsistencies", where, sp.hooks, len(sp.counted))
		}
		if sp.logs != len(sp.counted) {
			res.Violate("C12.log", "log", "%s: %d 'inconsistency N:' log lines for %d counted inconsistencies", where, sp.logs, len(sp.counted))
		}
		if len(want) > 0 {
			res.Probe("inconsistent_peer")
		} else {
			res.Probe("consistent_peer")
		}
	}
	if strings.HasPrefix(info.plan.Class, "twin") && judged > 0 {
		res.Probe("twin_peer_exchange")
	}
	res.Nontrivial = judged >= 1
}

func hdrOf(ra *ndp.RouterAdvertisement) string { h, _ := wireHeader(ra); return h }

func firstClass(l []string) string {
	if len(l) == 0 {
		return "-"
	}
	if i := strings.IndexByte(l[0], '('); i > 0 {
		return l[0][:i]
	}
	return l[0]
}

func incStrings(l []inconsistency) []string {
	s := make([]string, len(l))
	for i, x := range l {
		s[i] = x.String()
	}
	sort.Strings(s)
	return s
}

func init() {
	register("C12", nil, c12Gen, c12Oracle)
}

// worldAddrsAt returns the interface's address table as of event seq, in the
// listing format of the rtnetlink responder.
func worldAddrsAt(info *runInfo, node int, ifn string, seq int) string {
	var as []AddrW
	for _, iw := range info.plan.Nodes[node].Ifaces {
		if iw.Name == ifn {
			as = iw.Addrs
		}
	}
	out := addrListString(as)
	for i := range info.ev {
		e := &info.ev[i]
		if e.Seq >= seq {
			break
		}
		if e.K == "act.addrs" && e.Node == node && e.If == ifn {
			out = e.S
		}
	}
	return out
}
