package corerad

// C16 — deprecated prefixes and routes count down to zero at a fixed deadline.

import (
	"encoding/json"
	"fmt"
	"sort"
	"strings"
	"time"

	"github.com/mdlayher/corerad/internal/config"
	"github.com/mdlayher/corerad/internal/plugin"
	"github.com/mdlayher/corerad/internal/verifsim"
	"github.com/mdlayher/ndp"
	"net/netip"
	"github.com/mdlayher/corerad/internal/system"
)

func c16Config(rng *verifsim.RNG, s *IfaceSpec) []time.Duration {
	var deadlines []time.Duration
	life := func() time.Duration {
		switch rng.Intn(4) {
		case 0:
			return time.Duration(rng.Range(1, 20)) * time.Second
		case 1:
			return time.Duration(rng.Range(1, 90000)) * time.Millisecond
		case 2:
			return time.Duration(rng.Range(1, 4000)) * time.Second
		}
		return time.Duration(rng.Range(1, 100)) * time.Second
	}
	np := rng.Range(1, 3)
	for i := 0; i < np; i++ {
		p := PrefixSpec{Prefix: sp(fmt.Sprintf("2001:db8:%x::/64", 0x10+i)), OnLink: triBool(rng), Autonomous: triBool(rng)}
		if rng.Bool(0.75) {
			p.Deprecated = true
			v := life()
			q := v
			if rng.Bool(0.7) {
				q = time.Duration(1 + rng.Int63n(int64(v)))
			}
			p.Valid, p.Preferred = sp(v.String()), sp(q.String())
			deadlines = append(deadlines, v, q)
		} else {
			p.Valid, p.Preferred = genLifetimes(rng, false, true)
		}
		s.Prefixes = append(s.Prefixes, p)
	}
	nr := rng.Range(0, 2)
	for i := 0; i < nr; i++ {
		r := RouteSpec{Prefix: sp(fmt.Sprintf("2001:db8:%x::/48", 0x50+i)), Preference: triPref(rng)}
		if rng.Bool(0.75) {
			r.Deprecated = true
			v := life()
			r.Lifetime = sp(v.String())
			deadlines = append(deadlines, v)
		} else {
			r.Lifetime = optLifetime(rng, true, false, true)
		}
		s.Routes = append(s.Routes, r)
	}
	return deadlines
}

func c16Gen(rng *verifsim.RNG, idx int, tier string) *Plan {
	p := oneAdvertiser(rng)
	s := &p.Nodes[0].Config.Interfaces[0]
	deadlines := c16Config(rng, s)
	p.Nodes[0].Config.Shuffle = rng.U64() | 1

	if rng.Bool(0.35) {
		// Component altitude: the plugins' TimeNow seam driven by a jumping clock
		// (non-decreasing, repeats, readings before the epoch).
		p.Scenario, p.Class = "clock", "clock-seam"
		if rng.Bool(0.4) {
			// every call of the clock gets the next reading: the clock may advance
			// between two readings taken while one RA is being built
			p.Class = "clock-seam-per-call"
			p.Opt = map[string]int64{"per_call": 1}
			if rng.Bool(0.5) {
				// ... and between two options which one wildcard stanza expands to
				r := RouteSpec{Prefix: sp("::/0"), Deprecated: true, Preference: triPref(rng)}
				v := time.Duration(rng.Range(5, 4000)) * time.Second
				r.Lifetime = sp(v.String())
				deadlines = append(deadlines, v)
				s.Routes = append(s.Routes, r)
				p.Loop = []RouteW{{Prefix: "2001:db8:100::/48"}, {Prefix: "2001:db8:200::/56"}, {Prefix: "fd00:aa::/32"}}[:rng.Range(2, 3)]
				p.Class = "clock-seam-per-call+wildcard-route"
			}
		}
		t := -int64(rng.Dur(0, 10*time.Second))
		if rng.Bool(0.5) {
			t = 0
		}
		n := rng.Range(3, 40)
		for i := 0; i < n; i++ {
			switch rng.Intn(5) {
			case 0: // repeat
			case 1:
				t += int64(rng.Dur(0, 2*time.Second))
			case 2:
				t += int64(rng.Dur(0, 2*time.Hour))
			default:
				// land on / around a deadline that lies ahead
				var ahead []int64
				for _, d := range deadlines {
					for _, off := range []int64{-nsSec, -1, 0, 1, nsSec, -nsSec / 2} {
						if x := int64(d) + off; x >= t {
							ahead = append(ahead, x)
						}
					}
				}
				if len(ahead) > 0 {
					t = ahead[rng.Intn(len(ahead))]
				} else {
					t += int64(rng.Dur(0, time.Minute))
				}
			}
			p.Clock = append(p.Clock, t)
		}
		return p
	}

	p.Class = "bubble-clock"
	s.MaxInterval = sp([]string{"4s", "10s", "600s"}[rng.Intn(3)])
	var horizon int64 = 5 * nsSec
	for _, d := range deadlines {
		if int64(d) < 200*nsSec && int64(d)+3*nsSec > horizon {
			horizon = int64(d) + 3*nsSec
		}
		for _, off := range []int64{-nsSec, -1, 0, 1, nsSec} {
			at := int64(d) + off
			if at <= 0 || at > 200*nsSec || !rng.Bool(0.5) {
				continue
			}
			src := "::"
			if rng.Bool(0.3) {
				src = hostAddr(rng.Intn(3))
			}
			p.Actions = append(p.Actions, rsAction(at, src))
		}
	}
	for i, k := 0, rng.Range(0, 6); i < k; i++ {
		p.Actions = append(p.Actions, rsAction(int64(rng.Dur(0, time.Duration(horizon)))+jitter(rng), hostAddr(rng.Intn(3))))
	}
	if rng.Bool(0.3) {
		// a non-deprecated automatic prefix next to the deprecated stanzas, on an
		// interface whose addresses come and go and may themselves be deprecated
		// by the kernel: nothing of that turns the configured constants into a
		// countdown
		p.Class += "+auto-prefix"
		v, q := genLifetimes(rng, false, true)
		ap := PrefixSpec{Prefix: sp("::/64"), Valid: v, Preferred: q}
		if rng.Bool(0.4) {
			// the automatic prefix is itself deprecated ...
			ap.Deprecated = true
			vd := time.Duration(rng.Range(5, 60)) * time.Second
			qd := time.Duration(1 + rng.Int63n(int64(vd)))
			ap.Valid, ap.Preferred = sp(vd.String()), sp(qd.String())
			deadlines = append(deadlines, vd, qd)
			if rng.Bool(0.5) {
				// ... and the address listing fails for a while after it has
				// worked: whatever is sent then still counts down
				p.Class += "+listing-fails"
				p.Faults = append(p.Faults, Fault{Seam: "rtnl.addr", From: int64(rng.Dur(time.Second, time.Duration(horizon))), Count: rng.Range(1, 4), Err: []string{"nl.EINVAL", "opaque"}[rng.Intn(2)]})
			}
		}
		s.Prefixes = append(s.Prefixes, ap)
		iw := &p.Nodes[0].Ifaces[0]
		iw.Addrs = pickAddrs(rng, iw.LL, 5)
		for i, k := 0, rng.Range(1, 3); i < k; i++ {
			p.Actions = append(p.Actions, Action{At: int64(rng.Dur(0, time.Duration(horizon))) + jitter(rng), Kind: "addrs", If: "eth0", Addrs: pickAddrs(rng, iw.LL, 5)})
		}
	}
	if rng.Bool(0.12) {
		// the interface is not there when the daemon starts: the debug API is
		// asked for its RA meanwhile, around the deadlines too - what it shows of
		// a deprecated stanza is the time remaining then, not the configured value
		p.Class += "+asked-before-up"
		p.Nodes[0].Ifaces[0].Down = true
		p.Nodes[0].Config.Debug = &DebugSpec{Address: "127.0.0.1:9430"}
		up := horizon - nsSec
		p.Actions = append(p.Actions, Action{At: up, Kind: "ifup", If: "eth0"})
		for i, k := 0, rng.Range(2, 6); i < k; i++ {
			at := int64(rng.Dur(0, time.Duration(up)))
			if len(deadlines) > 0 && rng.Bool(0.5) {
				at = int64(deadlines[rng.Intn(len(deadlines))]) + []int64{-nsSec, -1, 1, nsSec, 5 * nsSec}[rng.Intn(5)]
			}
			if at > 0 && at < up {
				p.Actions = append(p.Actions, Action{At: at + jitter(rng), Kind: "http", Path: "/_/api/interfaces"})
			}
		}
		p.Horizon = horizon + 2*nsSec
		return p
	}
	if rng.Bool(0.2) {
		// a transmission fails for a transient reason (an interrupted call),
		// around a deadline or anywhere: whatever reaches the socket afterwards,
		// on this connection or the next, carries the time remaining then
		at := int64(rng.Dur(0, time.Duration(horizon)))
		if len(deadlines) > 0 && rng.Bool(0.6) {
			if d := int64(deadlines[rng.Intn(len(deadlines))]); d < horizon {
				at = d - int64(rng.Dur(0, 400*time.Millisecond))
			}
		}
		if at < 1 {
			at = 1
		}
		p.Faults = append(p.Faults, Fault{Seam: "write", From: at, Count: rng.Range(1, 2), Err: []string{"EINTR", "EMFILE", "ENOBUFS"}[rng.Intn(3)], Lat: []int64{0, int64(rng.Dur(0, 900*time.Millisecond))}[rng.Intn(2)]})
		p.Actions = append(p.Actions, rsAction(at+1000, hostAddr(1)), rsAction(at+2000, "::"))
		p.Class += "+failing-send"
	}
	maybeReinit(rng, p, "eth0", 500*nsMs, horizon, 0.25)
	p.Horizon = horizon
	return p
}

func init() {
	scenarios["clock"] = func(w *world, p *Plan, info *runInfo) {
		epoch := time.Now()
		info.epochs[0] = w.log.Now()
		cfg, err := config.Parse(strings.NewReader(p.Nodes[0].Config.TOML()), epoch)
		if err != nil {
			info.rejected[0] = err.Error()
			return
		}
		info.cfgs[0] = cfg
		ifi := cfg.Interfaces[0]
		var now time.Time
		perCall := p.Opt["per_call"] == 1
		idx, first, last := 0, int64(0), int64(0)
		tick := func() time.Time {
			// per-call mode: consume the next reading (the last one repeats)
			if perCall {
				off := p.Clock[len(p.Clock)-1]
				if idx < len(p.Clock) {
					off = p.Clock[idx]
				}
				idx++
				if first == -1<<62 {
					first = off
				}
				last = off
				return epoch.Add(time.Duration(off))
			}
			return now
		}
		if perCall {
			for _, pl := range ifi.Plugins {
				switch pl := pl.(type) {
				case *plugin.Prefix:
					pl.TimeNow = tick
				case *plugin.Route:
					pl.TimeNow = tick
					loop := p.Loop
					pl.Routes = func() ([]system.Route, error) {
						var out []system.Route
						for _, r := range loop {
							out = append(out, system.Route{Prefix: netip.MustParsePrefix(r.Prefix), Index: 1})
						}
						return out, nil
					}
				case *plugin.LLA:
					pl.Addr = parseMAC(p.Nodes[0].Ifaces[0].MAC)
				}
			}
			for idx < len(p.Clock) {
				first, last = -1<<62, 0
				before := idx
				e := verifsim.Event{K: "clock.build", If: ifi.Name}
				ra, _, err := ifi.RouterAdvertisement(true)
				if err != nil {
					e.Err = err.Error()
				} else if b, err := ndp.MarshalMessage(ra); err != nil {
					e.Err = "marshal: " + err.Error()
				} else {
					e.B = b
				}
				if idx == before {
					// the build did not read the clock at all: nothing deprecated
					idx++
					first, last = p.Clock[before], p.Clock[before]
				}
				e.V, e.Ref = first, int(last-first)
				w.log.Add(e)
			}
			return
		}
		for _, pl := range ifi.Plugins {
			switch pl := pl.(type) {
			case *plugin.Prefix:
				pl.TimeNow = func() time.Time { return now }
			case *plugin.Route:
				pl.TimeNow = func() time.Time { return now }
			case *plugin.LLA:
				pl.Addr = parseMAC(p.Nodes[0].Ifaces[0].MAC)
			}
		}
		for _, off := range p.Clock {
			now = epoch.Add(time.Duration(off))
			e := verifsim.Event{K: "clock.build", If: ifi.Name, V: off}
			ra, _, err := ifi.RouterAdvertisement(true)
			if err != nil {
				e.Err = err.Error()
			} else if b, err := ndp.MarshalMessage(ra); err != nil {
				e.Err = "marshal: " + err.Error()
			} else {
				e.B = b
			}
			w.log.Add(e)
		}
	}
	register("C16", nil, c16Gen, c16Oracle)
}

// c16Check judges one RA built at [t1,t2] (ns relative to the run start, with
// epoch at info.epochs[0]).
func c16Check(res *verifsim.Result, info *runInfo, ra *ndp.RouterAdvertisement, in modelIn, where string, last map[string][]int64, lastT map[string]int64) {
	m := expectRA(in)
	got := wireOpts(ra)
	for _, kind := range []string{"prefix", "route"} {
		e, x := optsOfKind(m, got, kind)
		if len(e) != len(x) {
			res.Violate("C16.constant", "count", "%s: %d %s options on the wire, %d expected", where, len(x), kind, len(e))
			continue
		}
		for i := range e {
			// everything one stanza expands to in one RA carries that stanza's
			// lifetimes: the same ones
			if i > 0 && e[i].stanza != "" && e[i].stanza == e[i-1].stanza && e[i].fixed == x[i].fixed && e[i-1].fixed == x[i-1].fixed && fmt.Sprint(x[i].v) != fmt.Sprint(x[i-1].v) {
				res.Violate("C16.value", "same-stanza", "%s: %s and %s were expanded from one stanza but carry different lifetimes", where, x[i-1], x[i])
			}
			if e[i].fixed != x[i].fixed {
				res.Violate("C16.constant", "identity", "%s: wire %s, expected %s", where, x[i], e[i])
				continue
			}
			if !e[i].matches(x[i]) {
				switch {
				case !e[i].dep:
					res.Violate("C16.constant", "constant", "%s: non-deprecated %s must advertise its configured constants %v", where, x[i], e[i])
				case e[i].hi[0] == 0:
					res.Violate("C16.zero", "zero", "%s: %s is past its deadline and must advertise 0; expected %s", where, x[i], e[i])
				default:
					res.Violate("C16.value", "value", "%s: wire %s, expected the time remaining %s", where, x[i], e[i])
				}
			}
			if e[i].dep {
				key := in.spec.Name + "|" + x[i].fixed
				if prev, ok := last[key]; ok && in.t1 >= lastT[key] {
					for j := range prev {
						if x[i].v[j] > prev[j] {
							res.Violate("C16.monotone", "monotone", "%s: %s advertises %d after an earlier RA advertised %d", where, x[i].fixed, x[i].v[j], prev[j])
						}
					}
				}
				last[key], lastT[key] = x[i].v, in.t2
				if e[i].hi[0] == 0 {
					res.Probe("past_deadline")
				} else {
					res.Probe("before_deadline")
				}
			}
			if kind == "prefix" && x[i].v[1] > x[i].v[0] {
				res.Violate("C16.prefvalid", "prefvalid", "%s: %s has preferred > valid", where, x[i])
			}
		}
	}
}

func c16Oracle(info *runInfo, res *verifsim.Result) {
	if info.rejected[0] != "" {
		res.Skipped = "config_rejected"
		return
	}
	last, lastT := map[string][]int64{}, map[string]int64{}
	spec := &info.plan.Nodes[0].Config.Interfaces[0]
	n := 0
	if info.plan.Scenario == "clock" {
		for i := range info.ev {
			e := &info.ev[i]
			if e.K != "clock.build" {
				continue
			}
			if e.Err != "" {
				res.Violate("C16.value", "build-failed", "RA generation failed at clock reading %s: %s", time.Duration(e.V), e.Err)
				continue
			}
			ra := parseRA(e.B)
			t := info.epochs[0] + e.V
			in := modelIn{spec: spec, fwd: true, mac: info.plan.Nodes[0].Ifaces[0].MAC, nLoop: 1, epoch: info.epochs[0], t1: t, t2: t + int64(e.Ref)}
			for range spec.Routes {
				in.routes = append(in.routes, routeListString(info.plan.Loop)) // one listing per wildcard stanza is all the model takes
			}
			if e.Ref > 0 {
				res.Probe("clock_advanced_within_one_build")
			}
			c16Check(res, info, ra, in, fmt.Sprintf("clock reading epoch%+v", time.Duration(e.V)), last, lastT)
			if e.V < 0 {
				res.Probe("reading_before_epoch")
			}
			n++
		}
		res.Nontrivial = n >= 2
		return
	}
	h := analyse(info.ev)
	ws := append([]*write(nil), h.writes...)
	sort.SliceStable(ws, func(i, j int) bool { return ws[i].seq < ws[j].seq })
	for _, w := range ws {
		// (an RA that went out without a build of its own - a cached copy? - is
		// judged as of the instant it was handed to the socket: modelFor)
		if w.ra == nil {
			continue
		}
		in, _ := modelFor(info, h, w)
		if in == nil || in.ambiguous {
			continue
		}
		c16Check(res, info, w.ra, *in, fmt.Sprintf("RA #%d to %s at %s", w.seq, w.dst, ms(w.t)), last, lastT)
		n++
	}
	// what the debug API shows of an interface that has never been initialised
	acts := map[int]*verifsim.Event{}
	for i := range info.ev {
		e := &info.ev[i]
		switch e.K {
		case "act.http":
			acts[e.Seq] = e
		case "http.exit":
			a := acts[e.Ref]
			if a == nil || a.S != "/_/api/interfaces" || e.Err != "" || e.V != 200 {
				continue
			}
			never := true
			for _, g := range h.gens {
				if g.dialSeq < e.Seq {
					never = false
				}
			}
			if !never {
				continue
			}
			var body apiFull
			if json.Unmarshal(e.B, &body) != nil {
				continue
			}
			for _, bi := range body.Interfaces {
				var ra apiRA
				if bi.Interface != spec.Name || json.Unmarshal(bi.Advertisement, &ra) != nil {
					continue
				}
				m := expectRA(modelIn{spec: spec, fwd: true, uninit: true, epoch: info.epochs[0], t1: a.T, t2: e.T})
				if m.fail != "" || len(m.unrep) > 0 {
					continue
				}
				res.Probe("api_before_first_initialisation")
				n++
				for _, d := range apiOptionDiffs(m, &ra) {
					res.Violate("C16.value", "api:"+d[0], "debug API at %s, %s never initialised: %s", ms(a.T), spec.Name, d[1])
				}
			}
		}
	}
	res.Nontrivial = n >= 2
}
