package corerad

// C17 — metrics and the debug API are always answerable and mirror the
// current RA, at any point of the daemon's life.

import (
	"encoding/json"
	"fmt"
	"sort"
	"strings"
	"time"

	"github.com/mdlayher/corerad/internal/verifsim"
	"github.com/mdlayher/ndp"
)

func c17Gen(rng *verifsim.RNG, idx int, tier string) *Plan {
	p := oneAdvertiser(rng)
	n := &p.Nodes[0]
	n.Config.Interfaces, n.Ifaces = nil, nil
	nif := rng.Pick(6, 4) + 1
	o := cfgOpts{frac: false, wildcards: rng.Bool(0.5), deprecated: rng.Bool(0.4), intervals: true}
	for k := 0; k < nif; k++ {
		is, iw := advIface(k)
		genIfaceSpec(rng, &is, o)
		is.MaxInterval = sp([]string{"4s", "6s", "30s"}[rng.Intn(3)])
		is.MinInterval = nil
		// distinct label sets per stanza (identical ones cannot be exported as separate samples)
		for i := range is.DNSSL {
			is.DNSSL[i].DomainNames = append(is.DNSSL[i].DomainNames, fmt.Sprintf("s%d.example", i))
		}
		iw.Fwd = rng.Bool(0.7)
		iw.Addrs = pickAddrs(rng, iw.LL, 5)
		if rng.Bool(0.15) {
			iw.MAC = ""
		}
		n.Config.Interfaces = append(n.Config.Interfaces, is)
		n.Ifaces = append(n.Ifaces, iw)
	}
	if rng.Bool(0.3) {
		n.Config.Interfaces = append(n.Config.Interfaces, IfaceSpec{Name: "wan0", Monitor: true})
		n.Ifaces = append(n.Ifaces, IfaceW{Name: "wan0", Index: 20, MAC: "02:00:00:00:00:99", LL: "fe80::99", Fwd: rng.Bool(0.5), Auto: true})
	}
	n.Config.Debug = &DebugSpec{Address: "127.0.0.1:9430", Prometheus: rng.Bool(0.8), PProf: rng.Bool(0.5)}
	n.Config.Shuffle = rng.U64() | 1
	p.Loop = pickRoutes(rng, 4, false)
	p.Class = "lifecycle"

	horizon := rng.Dur(6*time.Second, 40*time.Second)
	p.Horizon = int64(horizon)
	req := func(at int64) {
		path := []string{"/metrics", "/metrics", "/_/api/interfaces", "/_/api/interfaces", "/", "/debug/pprof/", "/nope", "/metrics/x", "/_/api"}[rng.Intn(9)]
		// (four in ten travel over a connection through the debug task's real
		// http.Server; the others are handed to the handler)
		p.Actions = append(p.Actions, Action{At: at, Kind: "http", Path: path, Conn: rng.Bool(0.4)})
	}
	// Lifecycle: an interface that is not there yet at start-up.
	if rng.Bool(0.4) {
		up := int64(rng.Dur(time.Second, horizon/2))
		n.Ifaces[0].Down = true
		p.Actions = append(p.Actions, Action{At: up, Kind: "ifup", If: n.Ifaces[0].Name})
		for i, k := 0, rng.Range(1, 3); i < k; i++ {
			req(int64(rng.Dur(0, time.Duration(up))) + jitter(rng)) // never initialised
		}
	}
	// Re-initialising: link flap followed by a few failing dials.
	if rng.Bool(0.35) {
		f := int64(rng.Dur(2*time.Second, horizon))
		ifn := n.Ifaces[rng.Intn(nif)].Name
		k := rng.Range(1, 5)
		p.Actions = append(p.Actions, Action{At: f, Kind: "link", If: ifn, Oper: "down"})
		p.Faults = append(p.Faults, Fault{Seam: "dial", If: ifn, From: f, Count: k, Err: "linknotready"})
		for i := 0; i < 3; i++ {
			req(f + int64(rng.Dur(0, time.Duration(k)*400*time.Millisecond)) + jitter(rng))
		}
	}
	for i, k := 0, rng.Range(3, 12); i < k; i++ {
		req(int64(rng.Dur(0, horizon)) + jitter(rng))
	}
	// world dynamics
	for i, k := 0, rng.Range(0, 6); i < k; i++ {
		at := int64(rng.Dur(0, horizon)) + jitter(rng)
		iw := n.Ifaces[rng.Intn(nif)]
		switch rng.Intn(4) {
		case 0:
			p.Actions = append(p.Actions, Action{At: at, Kind: "fwd", If: iw.Name, On: rng.Bool(0.5)})
		case 1:
			p.Actions = append(p.Actions, Action{At: at, Kind: "addrs", If: iw.Name, Addrs: pickAddrs(rng, iw.LL, 5)})
		case 2:
			p.Actions = append(p.Actions, Action{At: at, Kind: "autoconf", If: iw.Name, On: rng.Bool(0.5)})
		default:
			a := rsAction(at, hostAddr(rng.Intn(3)))
			a.If = iw.Name
			p.Actions = append(p.Actions, a)
		}
	}
	if rng.Bool(0.15) {
		// the debug address is busy at first (a previous instance still going
		// away): the server keeps trying every 3 s and then serves
		p.Opt = map[string]int64{"listen_failures": int64(rng.Range(1, 4))}
		p.Faults = append(p.Faults, Fault{Seam: "http.listen", Count: int(p.Opt["listen_failures"]), Err: "EADDRINUSE"})
		if p.Horizon < 14*nsSec {
			p.Horizon = 14 * nsSec
		}
	}
	switch rng.Intn(5) {
	case 0:
		// a scrape stalled inside a sysctl read for a long fake time: the daemon keeps serving
		if n.Config.Debug.Prometheus {
			p.Class = "held-scrape"
			t0 := int64(rng.Dur(time.Second, horizon/2))
			p.Faults = append(p.Faults, Fault{Seam: "auto.get", From: t0, Hold: "hs"})
			p.Actions = append(p.Actions, Action{At: t0 + 1000, Kind: "http", Path: "/metrics", Conn: rng.Bool(0.5)})
			d := int64(rng.Dur(time.Second, 15*time.Second))
			for i := 0; i < 3; i++ {
				a := rsAction(t0+int64(rng.Dur(0, time.Duration(d))), hostAddr(i))
				a.If = n.Ifaces[0].Name
				p.Actions = append(p.Actions, a)
			}
			p.Actions = append(p.Actions, Action{At: t0 + d, Kind: "release", Hold: "hs"})
			// one request at a time: nothing else is asked while this one is parked
			var keep []Action
			for _, a := range p.Actions {
				if a.Kind == "http" && a.At != t0+1000 && a.At >= t0 && a.At <= t0+d+nsMs {
					continue
				}
				keep = append(keep, a)
			}
			p.Actions = keep
			if p.Horizon < t0+d+nsSec {
				p.Horizon = t0 + d + nsSec
			}
			if rng.Bool(0.4) {
				// ... and the daemon is told to stop while that scrape, which came
				// in over a connection, is still stuck: it stops all the same
				p.Class = "held-scrape+stop"
				for i := range p.Actions {
					if p.Actions[i].Kind == "http" && p.Actions[i].At == t0+1000 {
						p.Actions[i].Conn = true
					}
				}
				st := t0 + 1000 + int64(rng.Dur(time.Millisecond, time.Duration(d-2000)))
				p.Actions = append(p.Actions, Action{At: st, Kind: "signal", Sig: []string{"SIGTERM", "SIGINT", "SIGHUP"}[rng.Intn(3)]})
			}
		}
	case 2:
		// two debug API requests (or an API request and a scrape) in flight at
		// once: the first is stuck in the forwarding read of the last interface
		// while the second runs to completion; nothing in the world changes
		// meanwhile, so both must mirror the same state
		p.Class = "overlapping-requests"
		t0 := int64(rng.Dur(time.Second, horizon/2)) + 333
		d := int64(rng.Dur(200*time.Millisecond, 3*time.Second))
		var keep []Action
		for _, a := range p.Actions {
			if a.At >= t0-nsMs && a.At <= t0+d+nsMs && a.Kind != "rs" {
				continue
			}
			keep = append(keep, a)
		}
		p.Actions = keep
		last := n.Ifaces[nif-1].Name
		p.Faults = append(p.Faults, Fault{Seam: "fwd", If: last, From: t0, Count: 1, Hold: "ho", Mode: "sampled"})
		second := "/_/api/interfaces"
		if n.Config.Debug.Prometheus && n.Metrics != "mem" && rng.Bool(0.3) {
			second = "/metrics"
		}
		p.Actions = append(p.Actions,
			Action{At: t0, Kind: "http", Path: "/_/api/interfaces"},
			Action{At: t0 + d/2, Kind: "http", Path: second},
			Action{At: t0 + d, Kind: "release", Hold: "ho"})
		if rng.Bool(0.5) {
			// ... and the second one is stuck in its first read when the first
			// one goes on
			p.Faults = append(p.Faults, Fault{Seam: "fwd", If: n.Ifaces[0].Name, From: t0 + d/2, Count: 1, Hold: "ho2", Mode: "sampled"})
			p.Actions = append(p.Actions, Action{At: t0 + d + 100*nsMs, Kind: "release", Hold: "ho2"})
			d += 100 * nsMs
		}
		if p.Horizon < t0+d+nsSec {
			p.Horizon = t0 + d + nsSec
		}
	case 1:
		// failing state reads (whoever makes the next one)
		p.Class = "state-faults"
		seam := []string{"fwd", "auto.get", "rtnl.addr"}[rng.Intn(3)]
		err := []string{"fs.EPERM", "fs.ENOENT", "fs.EIO"}[rng.Intn(3)]
		if seam == "rtnl.addr" {
			err = "nl.EPERM"
		}
		t0 := int64(rng.Dur(0, horizon)) + jitter(rng)
		p.Faults = append(p.Faults, Fault{Seam: seam, From: t0, Count: rng.Range(1, 3), Err: err})
		if rng.Bool(0.6) {
			// aimed at a request: armed in the very instant the request is made
			p.Actions = append(p.Actions, Action{At: t0, Kind: "http", Path: []string{"/metrics", "/_/api/interfaces"}[rng.Intn(2)]})
		} else {
			req(t0 + 1000)
		}
	}
	monitorStanzaAnywhere(rng, p)
	return p
}

// expectedSamples renders the metric samples the documentation promises for
// one advertising interface's RA; ok=false when two samples would carry the
// same label set (cannot be exported separately: don't-care).
type expSample struct {
	key    string
	lo, hi float64
}

func expectedSamples(ifn string, m *modelOut) ([]expSample, bool) {
	var out []expSample
	add := func(name, lab string, lo, hi int64) {
		out = append(out, expSample{key: name + "{" + lab + "}", lo: float64(lo), hi: float64(hi) + 0.999999999})
	}
	b := func(v bool) int64 {
		if v {
			return 1
		}
		return 0
	}
	for _, o := range m.opts {
		switch o.kind {
		case "prefix":
			lab := fmt.Sprintf("interface=%s,prefix=%s", ifn, o.pfx)
			add("corerad_advertiser_prefix_autonomous", lab, b(strings.Contains(o.fixed, "A=true")), b(strings.Contains(o.fixed, "A=true")))
			add("corerad_advertiser_prefix_on_link", lab, b(strings.Contains(o.fixed, "L=true")), b(strings.Contains(o.fixed, "L=true")))
			add("corerad_advertiser_prefix_valid_seconds", lab, o.lo[0], o.hi[0])
			add("corerad_advertiser_prefix_preferred_seconds", lab, o.lo[1], o.hi[1])
		case "route":
			add("corerad_advertiser_route_lifetime_seconds", fmt.Sprintf("interface=%s,route=%s", ifn, o.pfx), o.lo[0], o.hi[0])
		case "rdnss":
			if o.altFixed != "" {
				continue // two renderings are as good as each other: not judged
			}
			add("corerad_advertiser_rdnss_lifetime_seconds", fmt.Sprintf("interface=%s,servers=%s", ifn, strings.Join(o.list, ", ")), o.lo[0], o.hi[0])
		case "dnssl":
			add("corerad_advertiser_dnssl_lifetime_seconds", fmt.Sprintf("domains=%s,interface=%s", strings.Join(o.list, ", "), ifn), o.lo[0], o.hi[0])
		}
	}
	seen := map[string]bool{}
	for _, s := range out {
		if seen[s.key] {
			return out, false
		}
		seen[s.key] = true
	}
	return out, true
}

type apiFull struct {
	Interfaces []struct {
		Interface     string          `json:"interface"`
		Advertise     bool            `json:"advertise"`
		Advertisement json.RawMessage `json:"advertisement"`
	} `json:"interfaces"`
}

type apiRA struct {
	Hop      int    `json:"current_hop_limit"`
	M        bool   `json:"managed_configuration"`
	O        bool   `json:"other_configuration"`
	Pref     string `json:"router_selection_preference"`
	Lifetime int64  `json:"router_lifetime_seconds"`
	Reach    int64  `json:"reachable_time_milliseconds"`
	Retrans  int64  `json:"retransmit_timer_milliseconds"`
	Options  struct {
		Prefixes []struct {
			Prefix    string `json:"prefix"`
			Valid     int64  `json:"valid_lifetime_seconds"`
			Preferred int64  `json:"preferred_lifetime_seconds"`
		} `json:"prefixes"`
		Routes []struct {
			Prefix   string `json:"prefix"`
			Lifetime int64  `json:"route_lifetime_seconds"`
		} `json:"routes"`
	} `json:"options"`
}

// apiOptionDiffs compares the prefix and route options of an API rendering
// with the model of the RA of that moment: the same set, each with its
// lifetimes. Returns (signature, text) pairs.
func apiOptionDiffs(m *modelOut, ra *apiRA) [][2]string {
	var out [][2]string
	want := map[string]eopt{}
	for _, o := range m.opts {
		if o.kind == "prefix" || o.kind == "route" {
			k := o.kind + " " + o.pfx.String()
			if _, ok := want[k]; ok {
				return nil // two options with one key: don't-care
			}
			want[k] = o
		}
	}
	type jl struct {
		key string
		lt  []int64
	}
	var got []jl
	for _, x := range ra.Options.Prefixes {
		got = append(got, jl{"prefix " + x.Prefix, []int64{x.Valid, x.Preferred}})
	}
	for _, x := range ra.Options.Routes {
		got = append(got, jl{"route " + x.Prefix, []int64{x.Lifetime}})
	}
	if len(got) != len(want) {
		out = append(out, [2]string{"json-option-count", fmt.Sprintf("renders %d prefix/route options, the RA of that moment has %d", len(got), len(want))})
	}
	for _, g := range got {
		o, ok := want[g.key]
		if !ok {
			out = append(out, [2]string{"json-option-extra", fmt.Sprintf("renders %s, which the RA of that moment does not carry", g.key)})
			continue
		}
		for i := range g.lt {
			if g.lt[i] < o.lo[i] || g.lt[i] > o.hi[i] {
				out = append(out, [2]string{"json-lifetime:" + o.kind, fmt.Sprintf("renders %s with lifetimes %v, want %v..%v", g.key, g.lt, o.lo, o.hi)})
				break
			}
		}
	}
	return out
}

func c17Oracle(info *runInfo, res *verifsim.Result) {
	if info.rejected[0] != "" {
		res.Skipped = "config_rejected"
		return
	}
	h := analyse(info.ev)
	cfg := &info.plan.Nodes[0].Config
	advG := map[int]bool{}
	for i := range info.ev {
		e := &info.ev[i]
		if e.K == "read.enter" || e.K == "write.enter" || e.K == "dial.enter" {
			advG[e.G] = true
		}
	}
	// requests
	type reqT struct {
		act, enter, exit *verifsim.Event
	}
	reqs := map[int]*reqT{}
	var order []int
	for i := range info.ev {
		e := &info.ev[i]
		switch e.K {
		case "act.http":
			if e.Err != "" {
				// nobody listens on the debug address (yet, or any more)
				res.Probe("connection_refused")
				continue
			}
			reqs[e.Seq] = &reqT{act: e}
			order = append(order, e.Seq)
			if e.V == 1 {
				res.Probe("request_over_a_connection")
			}
		case "http.enter":
			if r := reqs[e.Ref]; r != nil {
				r.enter = e
			}
		case "http.exit":
			if r := reqs[e.Ref]; r != nil {
				r.exit = e
			}
		}
	}
	// requests that travelled over a connection: what the handler produced is
	// what the client gets, however long the handler took - unless the daemon
	// was told to stop before the handler was done
	{
		_, stopSeq0, _ := stopInstant(h, 0)
		for i := range info.ev {
			e := &info.ev[i]
			if e.K != "http.client" {
				continue
			}
			r := reqs[e.Ref]
			if r == nil || r.exit == nil || (stopSeq0 != 0 && stopSeq0 < e.Seq) {
				continue
			}
			dead := false
			for j := range info.ev {
				x := &info.ev[j]
				if (x.K == "serve.exit" || x.K == "http.close") && x.Seq < e.Seq {
					dead = true
				}
			}
			if dead {
				continue
			}
			res.Probe("client_answer_compared")
			if e.Err != "" || e.V != r.exit.V {
				res.Violate("C17.block", "client-unanswered", "request %s issued at %s over a connection: the handler answered %d after %s, the client got status %d %s", r.act.S, ms(r.act.T), r.exit.V, time.Duration(r.exit.T-r.act.T), e.V, e.Err)
			}
		}
	}
	overlaps := func(a *reqT) bool {
		for _, k := range order {
			b := reqs[k]
			if b == a || b.enter == nil || a.enter == nil {
				continue
			}
			bEnd := 1 << 60
			if b.exit != nil {
				bEnd = b.exit.Seq
			}
			aEnd := 1 << 60
			if a.exit != nil {
				aEnd = a.exit.Seq
			}
			if b.enter.Seq < aEnd && a.enter.Seq < bEnd {
				return true
			}
		}
		return false
	}
	judged := 0
	anyHeld := false // some request really was parked in one of its own calls
	for _, k := range order {
		r := reqs[k]
		path := r.act.S
		if r.exit == nil {
			res.Violate("C17.block", "never", "request %s issued at %s never completed", path, ms(r.act.T))
			continue
		}
		if strings.HasPrefix(r.exit.Err, "panic") {
			res.Violate("C17.crash", "panic:"+path+":"+panicKind(r.exit.Err), "request %s at %s crashed the handler: %s", path, ms(r.act.T), r.exit.Err)
			continue
		}
		// what the request itself read, and whether any of its calls was parked
		held := false
		sideBySide := false // listings made by helper goroutines of the request, side by side
		fwdRead := map[string]bool{}
		fwdErr, autoErr := false, false
		autoRead := map[string]bool{}
		listings := map[string][]string{}
		var routeList []string
		routeBy := map[int64][]string{} // by loopback interface
		for i := range info.ev {
			x := &info.ev[i]
			if x.Seq <= r.enter.Seq || x.Seq >= r.exit.Seq || advG[x.G] {
				continue
			}
			if strings.Contains(x.F, "hold") || strings.Contains(x.F, "lat") {
				held = true
			}
			switch x.K {
			case "fwd.exit":
				if x.Err != "" {
					fwdErr = true
				} else {
					fwdRead[x.If] = x.V == 1
				}
			case "auto.get.exit":
				if x.Err != "" {
					autoErr = true
				} else {
					autoRead[x.If] = x.V == 1
				}
			case "rtnl.addr.exit":
				if x.G != r.enter.G {
					sideBySide = true
				}
				if x.Err != "" {
					listings[x.If] = append(listings[x.If], "!"+x.Err)
				} else {
					listings[x.If] = append(listings[x.If], x.S)
				}
			case "rtnl.route.exit":
				if x.G != r.enter.G {
					sideBySide = true
				}
				if x.Err != "" {
					routeList = append(routeList, "!"+x.Err)
					routeBy[x.V] = append(routeBy[x.V], "!"+x.Err)
				} else {
					routeList = append(routeList, x.S)
					routeBy[x.V] = append(routeBy[x.V], x.S)
				}
			}
		}
		if sideBySide {
			// which stanza was given which listing cannot be told: only judged
			// when they all say the same
			same := true
			for _, l := range listings {
				for _, a := range l {
					if a != l[0] || strings.HasPrefix(a, "!") {
						same = false
					}
				}
			}
			for _, l := range routeBy {
				for _, a := range l {
					if a != l[0] || strings.HasPrefix(a, "!") {
						same = false
					}
				}
			}
			if !same {
				res.Probe("listings_side_by_side_saw_different_tables")
				continue
			}
		}
		if !held && r.exit.T != r.enter.T {
			res.Violate("C17.block", "slow", "request %s took %s of fake time although none of its calls was delayed", path, time.Duration(r.exit.T-r.enter.T))
		}
		if held {
			res.Probe("request_held")
			anyHeld = true
		}
		status := int(r.exit.V)

		// routing
		switch {
		case path == "/":
			if status != 200 {
				res.Violate("C17.routes", "index", "GET / answered %d", status)
			}
			continue
		case path == "/metrics":
			want := 404
			if cfg.Debug.Prometheus {
				want = 200
			}
			if (status == 404) != (want == 404) {
				res.Violate("C17.routes", "metrics", "GET /metrics answered %d with debug.prometheus=%t", status, cfg.Debug.Prometheus)
				continue
			}
			if status == 404 {
				continue
			}
		case path == "/debug/pprof/":
			if (status == 200) != cfg.Debug.PProf {
				res.Violate("C17.routes", "pprof", "GET /debug/pprof/ answered %d with debug.pprof=%t", status, cfg.Debug.PProf)
			}
			continue
		case path == "/_/api/interfaces":
		default:
			if status != 404 {
				res.Violate("C17.routes", "unknown", "GET %s answered %d, want 404", path, status)
			}
			continue
		}

		if overlaps(r) {
			// two requests in flight at once: their seam calls cannot be told
			// apart, so only crash/block/routing are judged - unless nothing in
			// the world changed while this one was in progress: then every read
			// made meanwhile, by whomever, saw the same world
			static := true
			for i := range info.ev {
				x := &info.ev[i]
				if x.Seq <= r.enter.Seq || x.Seq >= r.exit.Seq {
					continue
				}
				switch x.K {
				case "act.fwd", "act.addrs", "act.routes", "act.autoconf", "act.mac", "act.reindex", "act.link", "act.ifup", "act.ifdown", "act.watchend", "act.signal", "dial.enter", "dial.exit":
					static = false
				}
				if x.Err != "" && (strings.HasSuffix(x.K, ".exit")) && !advG[x.G] && x.K != "http.exit" {
					static = false
				}
			}
			if !static {
				continue
			}
			res.Probe("overlapping_requests_judged")
		}
		// mirror: per advertising interface
		initialised := func(ifn string) *generation {
			var g *generation
			for _, x := range h.gens {
				if x.ifn == ifn && x.dialSeq < r.enter.Seq {
					g = x
				}
			}
			return g
		}
		anyUninit := false
		models := map[string]*modelOut{}
		uninit := map[string]*modelOut{}
		for _, is := range cfg.Interfaces {
			if !is.Advertise {
				continue
			}
			for _, ifn := range is.names() {
				g := initialised(ifn)
				if g == nil {
					anyUninit = true
					res.Probe("request_before_first_dial")
					// no connection had been made by the time the request was
					// answered: an error is fine, and an answer has to be the RA
					// that can be known without the interface (no MAC, no
					// wildcard expansion, deprecated lifetimes as of now)
					never := true
					for _, x := range h.gens {
						if x.ifn == ifn && x.dialSeq < r.exit.Seq {
							never = false
						}
					}
					if fwd, ok := fwdRead[ifn]; ok && never {
						s := is
						uninit[ifn] = expectRA(modelIn{spec: &s, fwd: fwd, uninit: true, epoch: info.epochs[0], t1: r.enter.T, t2: r.exit.T})
					}
					continue
				}
				if g.endSeq != 0 && g.endSeq < r.enter.Seq {
					res.Probe("request_while_reinitialising")
				}
				fwd, ok := fwdRead[ifn]
				if !ok {
					continue
				}
				s := is
				in := modelIn{spec: &s, fwd: fwd, mac: g.mac, addr: listings[ifn], routes: routeList, nLoop: 1,
					epoch: info.epochs[0], t1: r.enter.T, t2: r.exit.T}
				models[ifn] = expectRA(in)
			}
		}
		if status >= 500 {
			if anyUninit || fwdErr || autoErr {
				continue // acceptable alternative / injected failure
			}
			failing := false
			for ifn, m := range models {
				if m.fail != "" {
					failing = true
				} else if _, ok := expectedSamples(ifn, m); !ok {
					failing = true // two options with one label set cannot be exported separately: don't-care
				}
			}
			if failing {
				continue
			}
			res.Violate("C17.mirror", "error:"+path, "GET %s at %s answered %d although every interface is initialised and nothing failed: %s", path, ms(r.act.T), status, firstLine(string(r.exit.B)))
			continue
		}
		judged++
		for ifn, m := range uninit {
			if m.fail != "" {
				res.Violate("C17.mirror", "answered-uninitialised", "GET %s at %s answered %d although %s has never been initialised and its RA cannot be generated: %s", path, ms(r.act.T), status, ifn, m.fail)
			} else if len(m.unrep) == 0 {
				models[ifn] = m
				res.Probe("uninitialised_interface_judged")
			}
		}
		if path == "/metrics" {
			got := map[string]float64{}
			advertising := map[string]bool{}
			for _, is := range cfg.Interfaces {
				for _, ifn := range is.names() {
					advertising[ifn] = is.Advertise
				}
			}
			for _, s := range parseProm(string(r.exit.B)) {
				got[s.key()] = s.value
				// RA-derived samples may only exist for advertising interfaces
				if strings.HasPrefix(s.name, "corerad_advertiser_") {
					for _, fam := range []string{"prefix_", "route_lifetime", "rdnss_lifetime", "dnssl_lifetime", "misconfiguration"} {
						if strings.HasPrefix(s.name, "corerad_advertiser_"+fam) && !advertising[s.labels["interface"]] {
							res.Violate("C17.mirror", "sample-for-non-advertiser", "scrape at %s: %s reported for %q, which does not advertise", ms(r.act.T), s.key(), s.labels["interface"])
						}
					}
				}
			}
			for _, is := range cfg.Interfaces {
				for _, ifn := range is.names() {
					chk := func(name string, want bool, have bool) {
						if !have {
							return
						}
						k := fmt.Sprintf("%s{interface=%s}", name, ifn)
						v, ok := got[k]
						if !ok || (v == 1) != want {
							res.Violate("C17.mirror", "gauge:"+name, "scrape at %s: %s = %v (present=%t), want %t", ms(r.act.T), k, v, ok, want)
						}
					}
					chk("corerad_interface_advertising", is.Advertise, true)
					chk("corerad_interface_monitoring", is.Monitor, true)
					f, okf := fwdRead[ifn]
					if !okf && fwdErr {
						// the request's own forwarding read failed, yet it answered:
						// whatever it reports is held against the system's real state
						f, okf = worldFwdAt(info, 0, ifn, r.exit.Seq), true
						if _, has := got[fmt.Sprintf("corerad_interface_forwarding{interface=%s}", ifn)]; !has {
							okf = false
						}
					}
					chk("corerad_interface_forwarding", f, okf)
					a, oka := autoRead[ifn]
					if !oka && !autoErr {
						// answered without asking the system (an assumption about what
						// the Dialer is doing right now?): held against the sysctl's real
						// value, if that did not change while the request ran
						a0, a1 := worldAutoAt(info, 0, ifn, r.enter.Seq), worldAutoAt(info, 0, ifn, r.exit.Seq)
						if _, has := got[fmt.Sprintf("corerad_interface_autoconfiguration{interface=%s}", ifn)]; has && a0 == a1 {
							a, oka = a1, true
							res.Probe("autoconf_gauge_without_read")
						}
					}
					chk("corerad_interface_autoconfiguration", a, oka)
				}
			}
			for ifn, m := range models {
				if m.fail != "" || len(m.unrep) > 0 {
					continue
				}
				exp, ok := expectedSamples(ifn, m)
				if !ok {
					continue
				}
				want := map[string]bool{}
				for _, e := range exp {
					want[e.key] = true
					v, ok := got[e.key]
					if !ok {
						res.Violate("C17.mirror", "missing-sample", "scrape at %s: sample %s is missing", ms(r.act.T), e.key)
					} else if v < e.lo || v > e.hi {
						res.Violate("C17.mirror", "sample-value", "scrape at %s: %s = %v, want %v..%v", ms(r.act.T), e.key, v, e.lo, e.hi)
					}
				}
				for k := range got {
					if strings.HasPrefix(k, "corerad_advertiser_") && strings.Contains(k, "interface="+ifn+",") || strings.HasSuffix(k, "interface="+ifn+"}") && strings.HasPrefix(k, "corerad_advertiser_dnssl") {
						for _, fam := range []string{"prefix_", "route_lifetime", "rdnss_lifetime", "dnssl_lifetime"} {
							if strings.HasPrefix(k, "corerad_advertiser_"+fam) && !want[k] {
								res.Violate("C17.mirror", "extra-sample", "scrape at %s: unexpected sample %s", ms(r.act.T), k)
							}
						}
					}
				}
				mk := fmt.Sprintf("corerad_advertiser_misconfiguration{details=interface_not_forwarding,interface=%s}", ifn)
				if _, has := got[mk]; has != m.notFwd {
					res.Violate("C17.mirror", "misconfiguration", "scrape at %s: %s present=%t, want %t", ms(r.act.T), mk, has, m.notFwd)
				}
			}
			continue
		}
		// JSON
		var body apiFull
		if err := json.Unmarshal(r.exit.B, &body); err != nil {
			res.Violate("C17.mirror", "json", "API body at %s does not parse: %v", ms(r.act.T), err)
			continue
		}
		for _, bi := range body.Interfaces {
			m := models[bi.Interface]
			if m == nil || m.fail != "" || len(m.unrep) > 0 {
				continue
			}
			var ra apiRA
			if len(bi.Advertisement) == 0 || string(bi.Advertisement) == "null" || json.Unmarshal(bi.Advertisement, &ra) != nil {
				res.Violate("C17.mirror", "json-missing", "API at %s: no advertisement for advertising interface %s", ms(r.act.T), bi.Interface)
				continue
			}
			hdr := fmt.Sprintf("hop=%d M=%t O=%t pref=%s reach=%dms retrans=%dms home=false proxy=false", ra.Hop, ra.M, ra.O, ra.Pref, ra.Reach, ra.Retrans)
			if hdr != m.hdr || ra.Lifetime != m.lifetime {
				res.Violate("C17.mirror", "json-header", "API at %s: %s header %q lifetime %d, want %q lifetime %d", ms(r.act.T), bi.Interface, hdr, ra.Lifetime, m.hdr, m.lifetime)
			}
			for _, d := range apiOptionDiffs(m, &ra) {
				res.Violate("C17.mirror", d[0], "API at %s: %s %s", ms(r.act.T), bi.Interface, d[1])
			}
			txt := string(bi.Advertisement)
			for _, o := range m.opts {
				var needles []string
				switch o.kind {
				case "prefix", "route":
					needles = []string{`"` + o.pfx.String() + `"`}
				case "rdnss", "dnssl":
					for _, s := range o.list {
						needles = append(needles, `"`+s+`"`)
					}
				case "mtu":
					needles = []string{fmt.Sprintf(":%d", o.num)}
				case "cp":
					b, _ := json.Marshal(o.str)
					needles = []string{string(b)}
				default:
					switch {
					case strings.HasPrefix(o.fixed, "lla source "):
						needles = []string{`"` + strings.TrimPrefix(o.fixed, "lla source ") + `"`}
					case strings.HasPrefix(o.fixed, "pref64 "):
						needles = []string{strings.TrimPrefix(o.fixed, "pref64 ")}
					}
				}
				for _, nd := range needles {
					if !strings.Contains(txt, nd) {
						res.Violate("C17.mirror", "json-option:"+strings.SplitN(o.fixed, " ", 2)[0], "API at %s: the rendering of %s does not mention %s of option %q", ms(r.act.T), bi.Interface, nd, o.fixed)
					}
				}
			}
		}
	}
	// a request that is stuck does not keep the daemon from stopping
	if info.plan.Class == "held-scrape+stop" {
		stopT, stopSeq, _ := stopInstant(h, 0)
		inflight := false
		for _, k := range order {
			r := reqs[k]
			if r.enter != nil && r.enter.Seq < stopSeq && (r.exit == nil || r.exit.Seq > stopSeq) {
				inflight = true
			}
		}
		if stopSeq != 0 && inflight {
			res.Probe("stopped_with_a_request_in_flight")
			var se *verifsim.Event
			for i := range info.ev {
				if info.ev[i].K == "serve.exit" {
					se = &info.ev[i]
				}
			}
			switch {
			case se == nil:
				res.Violate("C17.block", "stop-held", "stop at %s with a request stuck in a system call: the daemon never stopped", ms(stopT))
			case se.T > stopT+nsSec:
				res.Violate("C17.block", "stop-held", "stop at %s with a request stuck in a system call: the daemon only stopped at %s", ms(stopT), ms(se.T))
			}
		}
	}
	// while a request is parked the advertiser keeps answering solicitations
	// (only if it was the request that got parked: a request that was refused
	// leaves the stall armed for whoever reads that sysctl next - the dialer,
	// when it re-dials - and a daemon waiting for its own system call is not a
	// daemon blocked by a scrape)
	if strings.HasPrefix(info.plan.Class, "held-scrape") && anyHeld {
		for _, is := range cfg.Interfaces {
			if is.Advertise && !is.UnicastOnly {
				for _, ifn := range is.names() {
					stopT, _, _ := stopInstant(h, 0)
					c09Answered2(res, h, ifn, stopT)
				}
			}
		}
	}
	// the debug server comes up: at once, or 3 s after each failed listen
	if SimRealHTTP && cfg.Debug != nil && cfg.Debug.Address != "" {
		k := info.plan.Opt["listen_failures"]
		var ready *verifsim.Event
		// (up = its listening socket is open; WHEN the supervisor takes note of
		// that - it may look at its tasks one after the other - is not the point)
		for i := range info.ev {
			e := &info.ev[i]
			if e.K == "http.listen" && e.Err == "" {
				ready = e
				break
			}
		}
		stopT, _, _ := stopInstant(h, 0)
		want := k * 3 * nsSec
		// (the server may be going down before that, whether asked to or because
		// another task failed)
		for i := range info.ev {
			e := &info.ev[i]
			if (e.K == "serve.exit" || (e.K == "task.exit" && e.Err != "")) && (stopT == 0 || e.T < stopT) {
				stopT = e.T
			}
		}
		if stopT == 0 || stopT > want+nsMs {
			switch {
			case ready == nil:
				res.Violate("C17.block", "debug-server-never-ready", "the debug HTTP server never came up although its address was free from %s on (%d failed listen attempts)", ms(want), k)
			case ready.T > want+nsMs:
				res.Violate("C17.block", "debug-server-late", "the debug HTTP server came up at %s; its address was free from %s on (%d failed listen attempts, one retry every 3 s)", ms(ready.T), ms(want), k)
			}
		}
		if k > 0 {
			res.Probe("debug_address_busy_at_first")
		}
	}
	res.Nontrivial = judged >= 1
	_ = sort.Strings
	_ = ndp.Infinity
}

// c09Answered2 is C07's "unanswered" rule reported as C17.block.
func c09Answered2(res *verifsim.Result, h *history, ifn string, stopT int64) {
	for _, g := range h.gens {
		if g.ifn != ifn {
			continue
		}
		end := g.tEnd
		need := map[string]int{}
		for _, r := range g.rxs {
			if r.hop != 255 || r.src.IsUnspecified() {
				continue
			}
			if _, ok := r.msg.(*ndp.RouterSolicitation); !ok {
				continue
			}
			if (stopT != 0 && r.t+maxRADelayNs > stopT) || (g.endSeq != 0 && r.t+maxRADelayNs > end) {
				continue
			}
			need[r.src.String()]++
		}
		for _, w := range g.writes {
			if !w.mc() {
				need[w.dst.String()]--
			}
		}
		for dst, n := range need {
			if n > 0 {
				res.Violate("C17.block", "advertiser-stalled", "%s: %d solicitation(s) from %s went unanswered while a metrics request was parked", ifn, n, dst)
			}
		}
	}
}

func panicKind(s string) string {
	switch {
	case strings.Contains(s, "nil pointer"), strings.Contains(s, "invalid memory"):
		return "nil"
	case strings.Contains(s, "unhandled NDP option"):
		return "unhandled-option"
	}
	return "other"
}

func firstLine(s string) string {
	if i := strings.IndexByte(s, '\n'); i > 0 {
		s = s[:i]
	}
	if len(s) > 300 {
		s = s[:300]
	}
	return s
}

func init() {
	register("C17", nil, c17Gen, c17Oracle)
}

// worldAutoAt returns the value the autoconf sysctl of ifn held just before
// event seq: the plan's initial value, as changed by the operator (act.autoconf)
// and by every write that succeeded.
func worldAutoAt(info *runInfo, node int, ifn string, seq int) bool {
	v := false
	for _, iw := range info.plan.Nodes[node].Ifaces {
		if iw.Name == ifn {
			v = iw.Auto
		}
	}
	for i := range info.ev {
		e := &info.ev[i]
		if e.Seq >= seq {
			break
		}
		if (e.K == "act.autoconf" || e.K == "auto.set") && e.Node == node && e.If == ifn && e.Err == "" {
			v = e.V == 1
		}
	}
	return v
}
