package corerad

// C04 — a non-forwarding interface never advertises itself as a default
// router, on every path that generates an RA.

import (
	"encoding/json"
	"fmt"
	"github.com/mdlayher/ndp"
	"strings"
	"time"

	"github.com/mdlayher/corerad/internal/verifsim"
)

func c04Gen(rng *verifsim.RNG, idx int, tier string) *Plan {
	p := oneAdvertiser(rng)
	n := &p.Nodes[0]
	n.Config.Interfaces, n.Ifaces = nil, nil
	nif := rng.Pick(4, 4, 2) + 1
	for k := 0; k < nif; k++ {
		is, iw := advIface(k)
		iw.Fwd = rng.Bool(0.5)
		is.MaxInterval = sp([]string{"4s", "5s", "8s"}[rng.Intn(3)])
		switch rng.Intn(4) {
		case 0:
			is.DefaultLifetime = sp("0s")
		case 1:
			is.DefaultLifetime = sp("auto")
		case 2:
		default:
			is.DefaultLifetime = sp(secStr(rng.Range(8, 9000)))
		}
		if rng.Bool(0.5) {
			is.Prefixes = []PrefixSpec{{Prefix: sp(fmt.Sprintf("2001:db8:%x::/64", k+1))}}
		}
		is.UnicastOnly = rng.Bool(0.1)
		// header fields that must come out the same whatever forwarding says
		is.Preference = triPref(rng)
		if rng.Bool(0.3) {
			is.Managed, is.OtherConfig = triBool(rng), triBool(rng)
		}
		is.Verbose = rng.Bool(0.2)
		n.Config.Interfaces = append(n.Config.Interfaces, is)
		n.Ifaces = append(n.Ifaces, iw)
	}
	if rng.Bool(0.3) {
		// a monitoring interface next to them: it has a forwarding gauge too
		n.Config.Interfaces = append(n.Config.Interfaces, IfaceSpec{Name: "wan0", Monitor: true})
		n.Ifaces = append(n.Ifaces, IfaceW{Name: "wan0", Index: 20, MAC: "02:00:00:00:00:99", LL: "fe80::99", Fwd: rng.Bool(0.5), Auto: true})
	}
	n.Config.Debug = &DebugSpec{Address: "127.0.0.1:9430", Prometheus: true}
	p.Class = "flips"

	horizon := rng.Dur(6*time.Second, 60*time.Second)
	p.Horizon = int64(horizon)
	p.Stop = []string{"SIGTERM", "SIGINT", "SIGHUP"}[rng.Intn(3)]
	na := rng.Range(4, 40)
	for i := 0; i < na; i++ {
		at := int64(rng.Dur(0, horizon)) + jitter(rng)
		iw := n.Ifaces[rng.Intn(nif)]
		switch rng.Pick(6, 5, 3, 3, 3) {
		case 0:
			p.Actions = append(p.Actions, Action{At: at, Kind: "fwd", If: iw.Name, On: rng.Bool(0.5)})
		case 1:
			src := hostAddr(rng.Intn(4))
			if rng.Bool(0.3) {
				src = "::"
			}
			a := rsAction(at, src)
			a.If = iw.Name
			p.Actions = append(p.Actions, a)
		case 2:
			// a peer router's RA: triggers the consistency check path
			p.Actions = append(p.Actions, Action{At: at, Kind: "ra", If: iw.Name, Src: "fe80::beef", RA: &RASpec{Hop: 64, Lifetime: 1800}})
		case 3:
			p.Actions = append(p.Actions, Action{At: at, Kind: "http", Path: "/metrics"})
		case 4:
			p.Actions = append(p.Actions, Action{At: at, Kind: "http", Path: "/_/api/interfaces"})
		}
	}
	maybeReinit(rng, p, n.Ifaces[rng.Intn(nif)].Name, nsSec, int64(horizon), 0.25)
	if rng.Bool(0.2) {
		// A forwarding read that fails right after a flip: whatever the daemon
		// does then, it must not advertise the stale state.
		p.Class = "read-fails"
		iw := n.Ifaces[rng.Intn(nif)]
		t0 := int64(rng.Dur(4*time.Second, horizon))
		p.Actions = append(p.Actions, Action{At: t0, Kind: "fwd", If: iw.Name, On: !iw.Fwd},
			rsAction(t0+2000, hostAddr(0)))
		p.Actions[len(p.Actions)-1].If = iw.Name
		p.Faults = append(p.Faults, Fault{Seam: "fwd", If: iw.Name, From: t0 + 1000, Count: rng.Range(1, 2), Err: []string{"fs.EIO", "fs.EPERM", "fs.ENOENT"}[rng.Intn(3)]})
	} else if rng.Bool(0.12) {
		// A scrape whose *other* sysctl read (autoconfiguration) fails: whatever
		// the scrape then does (fail, or report what it could read), it must not
		// present an interface that forwards as one that does not.
		p.Class = "scrape-other-read-fails"
		iw := n.Ifaces[rng.Intn(nif)]
		t0 := int64(rng.Dur(4*time.Second, horizon)) + 555
		var keep []Action
		for _, x := range p.Actions {
			if x.At >= t0-nsMs && x.At <= t0+nsMs && (x.Kind == "link" || x.Kind == "http") {
				continue
			}
			keep = append(keep, x)
		}
		p.Actions = append(keep, Action{At: t0, Kind: "http", Path: "/metrics"})
		p.Faults = append(p.Faults, Fault{Seam: "auto.get", If: iw.Name, From: t0 - 1, Count: 1, Err: []string{"fs.EPERM", "fs.EIO", "fs.ENOENT"}[rng.Intn(3)]})
		if p.Horizon < t0+nsSec {
			p.Horizon = t0 + nsSec
		}
	} else if rng.Bool(0.25) {
		// Flip while a build is parked right after its forwarding read: the RA
		// must carry the value that build read.
		p.Class = "held-build"
		iw := n.Ifaces[rng.Intn(nif)]
		p.Faults = append(p.Faults, Fault{Seam: "write", If: iw.Name, Key: "mc", N: rng.Range(2, 4), Hold: "h1"})
		t0 := int64(rng.Dur(13*time.Second, 30*time.Second))
		p.Actions = append(p.Actions,
			Action{At: t0, Kind: "fwd", If: iw.Name, On: rng.Bool(0.5)},
			Action{At: t0 + 50*nsMs, Kind: "fwd", If: iw.Name, On: rng.Bool(0.5)},
			Action{At: t0 + 100*nsMs, Kind: "release", Hold: "h1"})
		if p.Horizon < t0+nsSec {
			p.Horizon = t0 + nsSec
		}
	} else if nif >= 2 && rng.Bool(0.2) {
		// Two debug API requests in flight at once with a forwarding flip between
		// their starts: the first sampled the old state and is stuck; the second
		// reads the new state, then gets stuck itself at the next interface while
		// the first one finishes. Each answers with what it read.
		p.Class = "overlapping-api+flip"
		t0 := int64(rng.Dur(4*time.Second, horizon)) + 321
		a, b := n.Ifaces[0].Name, n.Ifaces[1].Name
		var keep []Action
		for _, x := range p.Actions {
			if x.At >= t0-nsSec && x.At <= t0+1500*nsMs && (x.Kind == "fwd" || x.Kind == "http") {
				continue
			}
			keep = append(keep, x)
		}
		p.Actions = keep
		p.Faults = append(p.Faults,
			Fault{Seam: "fwd", If: a, From: t0, Count: 1, Hold: "ha", Mode: "sampled"},
			Fault{Seam: "fwd", If: b, From: t0 + 500*nsMs, Count: 1, Hold: "hb", Mode: "sampled"})
		p.Actions = append(p.Actions,
			Action{At: t0 - 500*nsMs, Kind: "fwd", If: a, On: true},
			Action{At: t0, Kind: "http", Path: "/_/api/interfaces"},
			Action{At: t0 + 300*nsMs, Kind: "fwd", If: a, On: false},
			Action{At: t0 + 600*nsMs, Kind: "http", Path: "/_/api/interfaces"},
			Action{At: t0 + 700*nsMs, Kind: "release", Hold: "ha"},
			Action{At: t0 + 800*nsMs, Kind: "release", Hold: "hb"})
		if p.Horizon < t0+2*nsSec {
			p.Horizon = t0 + 2*nsSec
		}
	} else if rng.Bool(0.15) {
		// A transmission fails (the daemon re-establishes the connection) and
		// forwarding flips right afterwards: whatever is sent next is built from
		// the state as it is then.
		p.Class = "send-fails+flip"
		iw := n.Ifaces[rng.Intn(nif)]
		t0 := int64(rng.Dur(4*time.Second, horizon)) + 555
		p.Faults = append(p.Faults, Fault{Seam: "write", If: iw.Name, From: t0, Count: 1, Err: []string{"ENOBUFS", "ENETDOWN", "EINVAL"}[rng.Intn(3)]})
		a := rsAction(t0+1000, hostAddr(0))
		a.If = iw.Name
		p.Actions = append(p.Actions, a,
			Action{At: t0 + int64(rng.Dur(510*time.Millisecond, 740*time.Millisecond)), Kind: "fwd", If: iw.Name, On: false},
			Action{At: t0 + 2*nsSec, Kind: "fwd", If: iw.Name, On: true})
		var keep []Action
		for _, x := range p.Actions {
			if x.Kind == "fwd" && x.If == iw.Name && x.At >= t0-nsSec && x.At < t0+510*nsMs {
				continue
			}
			keep = append(keep, x)
		}
		p.Actions = keep
		n.Ifaces[0].Fwd = n.Ifaces[0].Fwd || iw.Name == n.Ifaces[0].Name
	} else if rng.Bool(0.2) {
		// An RA that cannot be completed (the automatic prefix's address listing
		// fails, or the interface has never been initialised) on an interface that
		// is not forwarding: whatever a reporting path shows of it must not claim a
		// default router.
		p.Class = "plugin-fails"
		k := rng.Intn(nif)
		n.Config.Interfaces[k].Prefixes = append(n.Config.Interfaces[k].Prefixes, PrefixSpec{Prefix: sp("::/64")})
		n.Ifaces[k].Fwd = false
		n.Ifaces[k].Addrs = pickAddrs(rng, n.Ifaces[k].LL, 4)
		name := n.Ifaces[k].Name
		var keep []Action
		for _, a := range p.Actions {
			if a.Kind == "fwd" && a.If == name {
				continue
			}
			keep = append(keep, a)
		}
		p.Actions = keep
		if rng.Bool(0.5) {
			// not there at start-up: requests before it is ever initialised
			up := int64(rng.Dur(2*time.Second, horizon))
			n.Ifaces[k].Down = true
			p.Actions = append(p.Actions, Action{At: up, Kind: "ifup", If: name})
			for i, c := 0, rng.Range(1, 3); i < c; i++ {
				p.Actions = append(p.Actions, Action{At: int64(rng.Dur(100*time.Millisecond, time.Duration(up))), Kind: "http", Path: []string{"/_/api/interfaces", "/metrics"}[rng.Intn(2)]})
			}
		} else {
			t0 := int64(rng.Dur(2*time.Second, horizon)) + 777
			p.Faults = append(p.Faults, Fault{Seam: "rtnl.addr", If: name, From: t0, Count: rng.Range(1, 2), Err: []string{"nl.EPERM", "nl.EINVAL", "opaque", "nl.ENODEV"}[rng.Intn(4)]})
			p.Actions = append(p.Actions, Action{At: t0, Kind: "http", Path: []string{"/_/api/interfaces", "/metrics"}[rng.Intn(2)]})
		}
	} else if rng.Bool(0.3) {
		// A build whose forwarding read has sampled its value but is slow to
		// return; forwarding flips; another RA is asked for and built while the
		// first is still stuck. Each RA carries what its own build read.
		p.Class = "held-read"
		iw := n.Ifaces[rng.Intn(nif)]
		t0 := int64(rng.Dur(13*time.Second, 30*time.Second))
		p.Faults = append(p.Faults, Fault{Seam: "fwd", If: iw.Name, From: t0, Count: 1, Hold: "h2", Mode: "sampled"})
		second := rsAction(t0+700*nsMs+jitter(rng), hostAddr(1))
		if rng.Bool(0.3) {
			// ... or the consistency check of a neighbour's RA
			second = Action{At: t0 + 700*nsMs + jitter(rng), Kind: "ra", Src: "fe80::beef", RA: &RASpec{Hop: 64, Lifetime: 1800}}
		}
		first := rsAction(t0+nsMs, hostAddr(0))
		first.If, second.If = iw.Name, iw.Name
		p.Actions = append(p.Actions, first,
			Action{At: t0 + 600*nsMs, Kind: "fwd", If: iw.Name, On: rng.Bool(0.3)},
			second,
			Action{At: t0 + 1400*nsMs, Kind: "release", Hold: "h2"})
		if p.Horizon < t0+2*nsSec {
			p.Horizon = t0 + 2*nsSec
		}
	}
	monitorStanzaAnywhere(rng, p)
	return p
}

type apiBody struct {
	Interfaces []struct {
		Interface     string `json:"interface"`
		Advertise     bool   `json:"advertise"`
		Advertisement *struct {
			RouterLifetimeSeconds int `json:"router_lifetime_seconds"`
		} `json:"advertisement"`
	} `json:"interfaces"`
}

func c04Oracle(info *runInfo, res *verifsim.Result) {
	if info.rejected[0] != "" {
		res.Skipped = "config_rejected"
		return
	}
	h := analyse(info.ev)
	cfg := &info.plan.Nodes[0].Config

	// configured router lifetime (wire seconds) per interface
	configured := map[string]int64{}
	for _, is := range cfg.Interfaces {
		if !is.Advertise {
			continue
		}
		s := is
		m := expectRA(modelIn{spec: &s, fwd: true, nLoop: 1})
		for _, name := range is.names() {
			configured[name] = m.lifetime
		}
	}

	advG := map[int]bool{} // goroutines that touch a socket
	listenG := map[int]bool{}
	for i := range info.ev {
		e := &info.ev[i]
		switch e.K {
		case "read.enter":
			listenG[e.G], advG[e.G] = true, true
		case "write.enter", "dial.enter":
			advG[e.G] = true
		}
	}

	hasFwdLog := func(b *build) bool {
		for _, l := range b.logs {
			if strings.HasPrefix(l, b.ifn+": ") && strings.Contains(strings.ToLower(l), "forwarding") {
				return true
			}
		}
		return false
	}
	written := map[*build]*write{}
	paths := map[string]bool{}
	for _, w := range h.writes {
		if w.build != nil {
			written[w.build] = w
		}
		if w.ra == nil {
			continue
		}
		d, m := contentRule(info, h, w)
		if m == nil {
			continue
		}
		if d != "" {
			rule := "C04.content"
			if strings.HasPrefix(d, "router lifetime") {
				rule = "C04.lifetime"
			}
			res.Violate(rule, strings.SplitN(d, ":", 2)[0], "%s RA #%d to %s at %s (forwarding read: %t): %s", w.ifn, w.seq, w.dst, ms(w.t), w.build.fwd, d)
		}
		if !w.build.fwd {
			res.Probe("ra_while_not_forwarding")
		}
	}
	_, stopSeq, sig := stopInstant(h, 0)
	for _, b := range h.builds {
		if b.fwdErr != "" || !advG[b.g] {
			continue
		}
		w := written[b]
		if w == nil && !listenG[b.g] {
			continue // a build that failed before transmitting
		}
		conf := configured[b.ifn]
		if conf == 0 {
			continue // don't-care
		}
		listingFailed := false
		for _, l := range append(append([]string(nil), b.addr...), b.routes...) {
			if strings.HasPrefix(l, "!") {
				listingFailed = true
			}
		}
		if w == nil && listingFailed {
			continue // the build was given up: no RA, nothing to report about it
		}
		final := w != nil && stopSeq != 0 && w.seq > stopSeq && sig != "SIGHUP" && w.mc() && b.g != 0 && w.ra != nil && w.ra.RouterLifetime == 0 && isTaskGoroutine(info, b.g, b.ifn)
		if final {
			continue // terminating RA: configured lifetime is forced to 0, report is don't-care
		}
		path := "transmit"
		if w == nil {
			path = "consistency-check"
		}
		paths[path] = true
		need := !b.fwd
		if has := hasFwdLog(b); need != has {
			res.Violate("C04.log", fmt.Sprintf("log:%s:%t", path, need),
				"%s %s build at %s read forwarding=%t (configured lifetime %ds) but the not-forwarding log line is %s", b.ifn, path, ms(b.t1), b.fwd, conf, map[bool]string{true: "present", false: "missing"}[has])
		}
	}

	// The consistency check is an RA-generating path too: a neighbour's (valid) RA
	// handled while forwarding is off - and stays off - is compared with an RA
	// whose router lifetime is 0, which the daemon says in its log. Nothing of
	// that RA is on the wire, so the log line is what there is to see; a path
	// that does not even look at the forwarding state writes none.
	for _, g := range h.gens {
		conf := configured[g.ifn]
		if conf == 0 {
			continue
		}
		for k, r := range g.rxs {
			if _, ok := r.msg.(*ndp.RouterAdvertisement); !ok || r.hop != 255 {
				continue
			}
			endSeq := 1 << 60
			if k+1 < len(g.rxs) {
				endSeq = g.rxs[k+1].seq
			}
			if g.endSeq != 0 && g.endSeq < endSeq {
				endSeq = g.endSeq
			}
			if stopSeq != 0 && stopSeq < endSeq {
				continue // the stop may cut the handling short
			}
			off, static, handled, logged, failed := !worldFwdAt(info, 0, g.ifn, r.seq), true, false, false, false
			for i := range info.ev {
				x := &info.ev[i]
				if x.Seq <= r.seq || x.Seq >= endSeq {
					continue
				}
				switch {
				case x.K == "act.fwd" && x.If == g.ifn:
					static = false
				case x.K == "read.enter" && x.If == g.ifn && x.Gen == g.gen:
					handled = true // the listener is back for the next message
				case x.K == "log" && strings.HasPrefix(x.S, g.ifn+": ") && strings.Contains(strings.ToLower(x.S), "forwarding"):
					logged = true
				case strings.HasSuffix(x.K, ".exit") && x.Err != "" && x.If == g.ifn:
					failed = true
				}
			}
			if !off || !static || !handled || failed {
				continue
			}
			paths["consistency-check-rx"] = true
			if !logged {
				res.Violate("C04.log", "log:consistency-check:rx", "%s: a neighbour's RA (from %s) was handled at %s while forwarding was off (configured lifetime %ds) but no RA with router lifetime 0 was generated for the comparison: the not-forwarding log line is missing", g.ifn, r.src, ms(r.t), conf)
			}
		}
	}

	// metrics scrapes and API requests
	for i := range info.ev {
		e := &info.ev[i]
		if e.K != "http.exit" || e.Err != "" || e.V != 200 {
			continue
		}
		var enterSeq int
		for j := i - 1; j >= 0; j-- {
			if info.ev[j].K == "http.enter" && info.ev[j].Ref == e.Ref {
				enterSeq = info.ev[j].Seq
				break
			}
		}
		// Another request in progress at the same time (one of them stuck in a
		// slow read): the reads of the two cannot be told apart (the metrics
		// registry gathers on goroutines of its own). Other runs judge these.
		overlap := false
		for j := range info.ev {
			x := &info.ev[j]
			if (x.K == "http.enter" || x.K == "http.exit") && x.Ref != e.Ref && x.Seq > enterSeq && x.Seq < e.Seq {
				overlap = true
			}
		}
		fwdRead := map[string]bool{}
		if overlap {
			// ... unless forwarding did not change anywhere while this request was
			// in progress: then whatever it read itself is what the world held
			// when it started (the other request may have sampled older values)
			static := true
			for j := range info.ev {
				x := &info.ev[j]
				if x.Seq > enterSeq && x.Seq < e.Seq && (x.K == "act.fwd" || (x.K == "fwd.exit" && x.Err != "")) {
					static = false
				}
			}
			if !static {
				res.Probe("overlapping_requests_not_judged")
				continue
			}
			res.Probe("overlapping_requests_judged_by_world")
			for _, iw := range info.plan.Nodes[0].Ifaces {
				fwdRead[iw.Name] = worldFwdAt(info, 0, iw.Name, enterSeq)
			}
		} else {
			for j := range info.ev {
				x := &info.ev[j]
				if x.Seq > enterSeq && x.Seq < e.Seq && x.K == "fwd.exit" && x.Err == "" && !advG[x.G] {
					fwdRead[x.If] = x.V == 1
				}
			}
		}
		switch e.S {
		case "/metrics":
			paths["metrics"] = true
			got := map[string]float64{}
			for _, s := range parseProm(string(e.B)) {
				got[s.key()] = s.value
			}
			if !overlap && e.V == 200 {
				// a gauge answered without the read it mirrors (the read was skipped
				// on some path) is held against what the system held meanwhile, if
				// that did not change
				for _, iw := range info.plan.Nodes[0].Ifaces {
					if _, read := fwdRead[iw.Name]; read {
						continue
					}
					if _, has := got[fmt.Sprintf("corerad_interface_forwarding{interface=%s}", iw.Name)]; !has {
						continue
					}
					failed := false
					for j := range info.ev {
						x := &info.ev[j]
						if x.Seq > enterSeq && x.Seq < e.Seq && x.K == "fwd.exit" && x.Err != "" && x.If == iw.Name {
							failed = true
						}
					}
					if a, b := worldFwdAt(info, 0, iw.Name, enterSeq), worldFwdAt(info, 0, iw.Name, e.Seq); a == b && !failed {
						fwdRead[iw.Name] = a
						res.Probe("forwarding_gauge_without_read")
					}
				}
			}
			for ifn, fwd := range fwdRead {
				k := fmt.Sprintf("corerad_interface_forwarding{interface=%s}", ifn)
				v, ok := got[k]
				if !ok || (v == 1) != fwd {
					res.Violate("C04.metric", "gauge", "scrape at %s: %s = %v (present=%t) but forwarding read was %t", ms(e.T), k, v, ok, fwd)
				}
				conf, adv := configured[ifn]
				mk := fmt.Sprintf("corerad_advertiser_misconfiguration{details=interface_not_forwarding,interface=%s}", ifn)
				_, has := got[mk]
				if !adv {
					// an interface that advertises nothing cannot advertise a default
					// route it should not: no misconfiguration, whatever its neighbours do
					if has {
						res.Violate("C04.metric", "misconfiguration-non-advertiser", "scrape at %s: %s is reported although %s does not advertise (its forwarding read was %t)", ms(e.T), mk, ifn, fwd)
					}
					continue
				}
				if conf != 0 && has != !fwd {
					res.Violate("C04.metric", "misconfiguration", "scrape at %s: %s present=%t but forwarding read was %t and configured lifetime is %ds", ms(e.T), mk, has, fwd, conf)
				}
			}
		case "/_/api/interfaces":
			paths["api"] = true
			var body apiBody
			if err := json.Unmarshal(e.B, &body); err != nil {
				res.Violate("C04.api", "json", "API body does not parse: %v", err)
				continue
			}
			for _, bi := range body.Interfaces {
				conf, adv := configured[bi.Interface]
				if !adv || bi.Advertisement == nil {
					continue
				}
				fwd, ok := fwdRead[bi.Interface]
				if !ok {
					continue
				}
				want := conf
				if !fwd {
					want = 0
				}
				if int64(bi.Advertisement.RouterLifetimeSeconds) != want {
					res.Violate("C04.api", "lifetime", "API at %s: %s router_lifetime_seconds=%d but forwarding read was %t and configured lifetime is %ds",
						ms(e.T), bi.Interface, bi.Advertisement.RouterLifetimeSeconds, fwd, conf)
				}
			}
		}
	}
	for k := range paths {
		res.Probe("path_" + k)
	}
	res.Nontrivial = len(paths) >= 2
}

// isTaskGoroutine reports whether goroutine label g is the one running the
// interface's task (the goroutine that dials and sends the initial and final RA).
func isTaskGoroutine(info *runInfo, g int, ifn string) bool {
	for i := range info.ev {
		e := &info.ev[i]
		if e.K == "dial.enter" && e.If == ifn {
			return e.G == g
		}
	}
	return false
}

func init() {
	register("C04", nil, c04Gen, c04Oracle)
}
