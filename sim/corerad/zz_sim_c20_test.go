package corerad

// C20 — server supervision: one task per interface, fail together, stop on
// signal, readiness only when everybody is ready.

import (
	"fmt"
	"strings"
	"time"

	"github.com/mdlayher/corerad/internal/verifsim"
)

func c20Gen(rng *verifsim.RNG, idx int, tier string) *Plan {
	p := oneAdvertiser(rng)
	n := &p.Nodes[0]
	n.Config.Interfaces, n.Ifaces = nil, nil
	horizon := rng.Dur(2*time.Second, 20*time.Second)
	p.Horizon = int64(horizon)

	scripted := rng.Bool(0.6)
	// interface mix: advertise / monitor / neither, single names and groups
	nif := rng.Range(1, 4)
	for k := 0; k < nif; k++ {
		is, iw := advIface(k)
		switch rng.Intn(3) {
		case 0:
		case 1:
			is.Advertise, is.Monitor = false, true
		default:
			is.Advertise = false
		}
		is.MaxInterval = nil
		if is.Advertise {
			is.MaxInterval = sp("4s")
		}
		if rng.Bool(0.2) {
			// a names group: the world needs both interfaces
			iw2 := iw
			iw2.Name, iw2.Index, iw2.LL = iw.Name+"b", iw.Index+40, iw.LL+"b"
			iw2.Addrs = nil
			is.Names, is.Name = []string{iw.Name, iw2.Name}, ""
			n.Ifaces = append(n.Ifaces, iw2)
		}
		n.Config.Interfaces = append(n.Config.Interfaces, is)
		n.Ifaces = append(n.Ifaces, iw)
	}
	if rng.Bool(0.5) {
		n.Config.Debug = &DebugSpec{Address: "127.0.0.1:9430", Prometheus: rng.Bool(0.5)}
		if rng.Bool(0.3) {
			// its address is busy for a while (or for ever: 40 attempts, then the
			// task fails, and everybody with it)
			k := rng.Range(1, 4)
			if rng.Bool(0.05) {
				k = 41
				horizon = 125 * time.Second
			}
			p.Faults = append(p.Faults, Fault{Seam: "http.listen", Count: k, Err: "EADDRINUSE"})
		}
	}
	p.Class = "real-tasks"

	sigAt := int64(rng.Dur(100*time.Millisecond, horizon)) + jitter(rng)
	// (whatever the process may be sent and has not ignored: anything but SIGHUP
	// means terminate)
	sig := []string{"SIGTERM", "SIGINT", "SIGHUP", "SIGTERM", "SIGINT", "SIGHUP", "SIGQUIT", "SIGUSR1"}[rng.Intn(8)]
	if scripted {
		p.Class = "scripted"
		n.OnlyScript = rng.Bool(0.7)
		if n.OnlyScript {
			p.Class = "scripted-only"
		}
		nt := rng.Range(1, 5)
		for i := 0; i < nt; i++ {
			st := ScriptTask{Name: fmt.Sprintf("t%d", i), ReadyAt: int64(rng.Dur(0, 2*time.Second)), FailAt: -1, NilAt: -1}
			switch rng.Intn(6) {
			case 0:
				st.FailAt = int64(rng.Dur(0, horizon)) + int64(i) // fails at an arbitrary instant
			case 1:
				st.NilAt = int64(rng.Dur(0, horizon)) + int64(i) // returns early without error
			case 2:
				st.ReadyAt = -1 // never ready
			case 3:
				st.FailAt = sigAt + int64(rng.Intn(3)-1) // races the signal
			}
			if st.FailAt >= 0 && rng.Bool(0.3) {
				st.FailKind = "canceled"
			}
			if rng.Bool(0.3) {
				st.StopLag = int64(rng.Dur(time.Millisecond, 3*time.Second)) // slow to stop
			}
			// no two scripted timers in exactly the same instant (timer ties are the runtime's to break)
			if st.ReadyAt >= 0 {
				st.ReadyAt += int64(i) * 5
			}
			if st.FailAt >= 0 {
				st.FailAt += int64(i) * 7
			}
			if st.NilAt >= 0 {
				st.NilAt += int64(i) * 11
			}
			n.Script = append(n.Script, st)
		}
		if n.OnlyScript && rng.Bool(0.4) {
			// the signal task parked in its log write: between recording the
			// signal and cancelling everybody
			// (the supervisor notification, not the log write before it: a log
			// write is made under log.Logger's own mutex, and parking it stops
			// everybody else who logs for real, not only in the simulation)
			p.Faults = append(p.Faults, Fault{Seam: "notify", From: sigAt, Hold: "hl"})
			p.Actions = append(p.Actions, Action{At: sigAt + int64(rng.Dur(time.Millisecond, 2*time.Second)), Kind: "release", Hold: "hl"})
			p.Class = "scripted-only+signal-held"
		}
	}
	if !scripted && rng.Bool(0.35) {
		// a real interface task fails for good (permission error on its socket):
		// every other task must be cancelled and Serve must report that error
		var real []string
		for _, is := range n.Config.Interfaces {
			if is.Advertise || is.Monitor {
				real = append(real, is.names()...)
			}
		}
		if len(real) > 0 {
			p.Class = "real-tasks+fatal"
			victim := real[rng.Intn(len(real))]
			p.Faults = append(p.Faults, Fault{Seam: "read", If: victim, From: int64(rng.Dur(0, horizon/2)) + 1, Err: []string{"EPERM", "opaque"}[rng.Intn(2)]})
		}
	}
	if rng.Bool(0.15) {
		// the supervisor's notification socket goes away at some point (or was
		// never there): nobody but the supervisor may notice
		from := int64(0)
		if rng.Bool(0.6) {
			from = int64(rng.Dur(0, horizon))
		}
		p.Faults = append(p.Faults, Fault{Seam: "notify", From: from, Count: -1, Err: []string{"ENOBUFS", "EPERM", "opaque"}[rng.Intn(3)]})
		p.Class += "+notify-fails"
	}
	if !scripted && rng.Bool(0.2) {
		// the link watcher is slow to notice that it has to stop (its pending
		// read has to be interrupted first): Serve waits for it like for any task
		p.Faults = append(p.Faults, Fault{Seam: "watch.stop", Count: -1, Lat: int64(rng.Dur(50*time.Millisecond, 2*time.Second))})
		p.Class += "+slow-watcher-stop"
	}
	listenFaults := false
	for _, f := range p.Faults {
		if f.Seam == "http.listen" {
			listenFaults = true
		}
	}
	if !scripted && n.Config.Debug != nil && !listenFaults && sigAt > 600*nsMs && rng.Bool(0.3) {
		// a debug request is in flight when the signal arrives, from a client that
		// has stopped reading (its response never drains): the HTTP task stops
		// like every other task, and Serve returns
		path := "/_/api/interfaces"
		if n.Config.Debug.Prometheus && rng.Bool(0.6) {
			path = "/metrics"
		}
		p.Actions = append(p.Actions, Action{At: sigAt - int64(rng.Dur(time.Millisecond, 500*time.Millisecond)), Kind: "http", Path: path, Conn: true, Hold: "hc"})
		p.Class += "+request-in-flight"
	}
	burstIf := ""
	if !scripted && rng.Bool(0.2) {
		for _, is := range n.Config.Interfaces {
			if is.Advertise && burstIf == "" {
				burstIf = is.names()[0]
			}
		}
	}
	if burstIf != "" {
		// the signal finds an advertiser's listener waiting for room in its
		// request queue (a burst of solicitations in the same instant)
		p.Class += "+burst-at-signal"
		biasQueueFull(rng, p)
		b := Action{At: sigAt, Kind: "rs", If: burstIf, Src: []string{hostAddr(3), "::"}[rng.Intn(2)], N: rng.Range(17, 40)}
		sa := Action{At: sigAt, Kind: "signal", Sig: sig}
		if rng.Bool(0.5) {
			b.Then = &sa
			p.Actions = append(p.Actions, b)
		} else {
			sa.Then = &b
			p.Actions = append(p.Actions, sa)
		}
		p.Horizon = sigAt + 5*nsSec
	} else if rng.Bool(0.85) {
		p.Actions = append(p.Actions, Action{At: sigAt, Kind: "signal", Sig: sig})
		p.Horizon = sigAt + 5*nsSec
	} else {
		p.Stop = sig
	}
	return p
}

func c20Oracle(info *runInfo, res *verifsim.Result) {
	if info.rejected[0] != "" {
		res.Skipped = "config_rejected"
		return
	}
	ev := info.ev
	n := info.plan.Nodes[0]

	// (i) task list
	if !n.OnlyScript {
		var want []string
		for _, is := range n.Config.Interfaces {
			for _, name := range is.names() {
				switch {
				case is.Advertise:
					want = append(want, fmt.Sprintf("advertiser %q", name))
				case is.Monitor:
					want = append(want, fmt.Sprintf("monitor %q", name))
				}
			}
		}
		if d := n.Config.Debug; d != nil && d.Address != "" {
			want = append(want, "http")
		}
		want = append(want, "watcher")
		var got []string
		for i, s := range info.tasks[0] {
			switch info.taskKind[0][i] {
			case "http", "watcher":
				got = append(got, info.taskKind[0][i])
			default:
				got = append(got, s)
			}
		}
		if strings.Join(got, "|") != strings.Join(want, "|") {
			res.Violate("C20.tasks", "tasks", "tasks built: %v, want %v", got, want)
		}
	}

	// (ii) supervision
	type tk struct {
		name        string
		enter, exit *verifsim.Event
		ready       *verifsim.Event
		cancelled   *verifsim.Event
	}
	tasks := map[string]*tk{}
	var names []string
	get := func(s string) *tk {
		t, ok := tasks[s]
		if !ok {
			t = &tk{name: s}
			tasks[s] = t
			names = append(names, s)
		}
		return t
	}
	var serveExit, sigEv, sigSet, readyEv, final *verifsim.Event
	for i := range ev {
		e := &ev[i]
		switch e.K {
		case "task.enter":
			get(e.S).enter = e
		case "task.exit":
			get(e.S).exit = e
		case "task.ready":
			get(e.S).ready = e
		case "script.cancelled":
			get("script " + e.S).cancelled = e
		case "serve.exit":
			serveExit = e
		case "act.signal":
			if sigEv == nil && e.Err == "" {
				sigEv = e
			}
		case "log":
			if sigSet == nil && strings.HasPrefix(e.S, "received ") && strings.Contains(e.S, "shutting down") {
				sigSet = e
			}
		case "notify":
			if readyEv == nil && strings.Contains(e.S, "READY=1") {
				readyEv = e
			}
		case "act.final":
			final = e
		}
	}
	res.Nontrivial = len(names) >= 2

	// first failure
	var firstFail *tk
	for _, s := range names {
		t := tasks[s]
		if t.exit != nil && t.exit.Err != "" && (firstFail == nil || t.exit.Seq < firstFail.exit.Seq) {
			firstFail = t
		}
	}
	signalFirst := sigEv != nil && (firstFail == nil || sigEv.Seq < firstFail.exit.Seq)
	if firstFail != nil {
		res.Probe("task_failed")
	}
	if sigEv != nil && firstFail != nil && abs64(sigEv.T-firstFail.exit.T) <= 2 {
		res.Probe("signal_races_failure")
	}

	// waitall
	if serveExit == nil {
		res.Violate("C20.waitall", "never", "Serve never returned")
		return
	}
	for _, s := range names {
		t := tasks[s]
		if t.enter != nil && (t.exit == nil || t.exit.Seq > serveExit.Seq) {
			res.Violate("C20.waitall", "early", "Serve returned at %s before task %s had returned", ms(serveExit.T), s)
		}
	}

	// the link watcher's work is over when Serve returns (its task may not
	// report "returned" while the watch still runs)
	for i := range ev {
		e := &ev[i]
		if e.K == "watch.exit" && e.Seq > serveExit.Seq {
			res.Violate("C20.waitall", "early:watcher", "Serve returned at %s while the link watcher was still running (it stopped at %s)", ms(serveExit.T), ms(e.T))
		}
	}
	// ... and for nothing else: once the last task has returned Serve has no
	// reason to stay (a task that never became ready must not hold it back)
	notifyFault := false
	for _, f := range info.plan.Faults {
		if (f.Seam == "notify" || f.Seam == "log") && (f.Hold != "" || f.Lat != 0) {
			notifyFault = true
		}
	}
	if !notifyFault {
		var last *verifsim.Event
		for _, s := range names {
			if t := tasks[s]; t.exit != nil && (last == nil || t.exit.Seq > last.Seq) {
				last = t.exit
			}
		}
		// (the signal watcher is a task of its own: it returns on the signal or
		// when a failing task cancels everybody)
		if sigEv != nil && (last == nil || sigEv.Seq > last.Seq) {
			last = sigEv
		}
		if last != nil && last.Seq < serveExit.Seq && serveExit.T > last.T && (sigEv != nil || firstFail != nil) {
			res.Violate("C20.waitall", "late", "every task had returned by %s but Serve only returned at %s", ms(last.T), ms(serveExit.T))
		}
	}

	// nothing but a signal or a failing task stops the others: a task that returns
	// without an error (it had nothing to do) leaves everybody else running
	{
		var cause *verifsim.Event
		if sigEv != nil {
			cause = sigEv
		}
		if firstFail != nil && (cause == nil || firstFail.exit.Seq < cause.Seq) {
			cause = firstFail.exit
		}
		for _, s := range names {
			t := tasks[s]
			if t.cancelled != nil && (cause == nil || t.cancelled.Seq < cause.Seq) && (final == nil || t.cancelled.Seq < final.Seq) {
				res.Violate("C20.signal", "spurious-cancel", "task %s saw its context cancelled at %s although no signal had arrived and no task had failed", s, ms(t.cancelled.T))
				break
			}
		}
		if cause == nil || serveExit.Seq < cause.Seq {
			if final == nil || serveExit.Seq < final.Seq {
				res.Violate("C20.signal", "spurious-return", "Serve returned at %s although no signal had arrived and no task had failed", ms(serveExit.T))
			}
		}
	}

	// cancelall: once the first task failed, every scripted task still running sees its context cancelled at once
	if firstFail != nil && !signalFirst {
		for _, s := range names {
			t := tasks[s]
			if !strings.HasPrefix(s, "script ") || t == firstFail || t.enter == nil {
				continue
			}
			if t.exit != nil && t.exit.Seq < firstFail.exit.Seq {
				continue // had already returned
			}
			if t.cancelled == nil && t.exit != nil && t.exit.Err != "" {
				continue // failed by itself in the same instant
			}
			if t.cancelled == nil && t.exit != nil && strings.Contains(lastScriptEvent(ev, strings.TrimPrefix(s, "script ")), "nil") {
				continue
			}
			if t.cancelled == nil || t.cancelled.T > firstFail.exit.T {
				res.Violate("C20.cancelall", "cancelall", "task %s failed at %s but %s was not cancelled then (cancelled: %v)", firstFail.name, ms(firstFail.exit.T), s, evT(t.cancelled))
			}
		}
		for _, s := range names {
			t := tasks[s]
			if strings.HasPrefix(s, "script ") || t == firstFail || t.enter == nil {
				continue
			}
			// (a link watcher that is slow to notice the cancellation gets that much longer)
			var slack int64
			if s == "link state watcher" {
				for _, f := range info.plan.Faults {
					if f.Seam == "watch.stop" {
						slack = f.Lat + nsMs
					}
				}
			}
			if t.exit == nil || t.exit.T > firstFail.exit.T+nsSec+slack {
				res.Violate("C20.cancelall", "real-task-lingers", "task %s failed at %s but %s was still running a second later", firstFail.name, ms(firstFail.exit.T), s)
			}
		}
		if !strings.Contains(serveExit.Err, firstFail.exit.Err) {
			// two tasks failing in the same instant: either error is the first
			other := false
			for _, s := range names {
				t := tasks[s]
				if t != firstFail && t.exit != nil && t.exit.Err != "" && t.exit.T == firstFail.exit.T && strings.Contains(serveExit.Err, t.exit.Err) {
					other = true
				}
			}
			if !other {
				res.Violate("C20.firsterr", "firsterr", "Serve returned %q, which does not carry the first task error %q", serveExit.Err, firstFail.exit.Err)
			}
		}
	}
	// signal: success when nothing failed before it
	if signalFirst {
		failedAfter := false
		for _, s := range names {
			if t := tasks[s]; t.exit != nil && t.exit.Err != "" {
				failedAfter = true
			}
		}
		if !failedAfter && serveExit.Err != "" {
			res.Violate("C20.signal", "signal", "Serve returned %q after %s although no task failed", serveExit.Err, sigEv.S)
		}
		// ... and promptly: with real tasks only (scripted ones may be slow to stop
		// by design) and nothing parked, everybody has stopped a second after the
		// signal, whatever the tasks were in the middle of - a debug request from
		// a client that does not read its response included
		if n0 := &info.plan.Nodes[0]; len(n0.Script) == 0 {
			slack := int64(0)
			parked := false
			for _, f := range info.plan.Faults {
				if f.Seam == "watch.stop" {
					slack = f.Lat + nsMs
				}
				if f.Hold != "" || (f.Lat > 0 && f.Seam != "watch.stop") {
					parked = true
				}
			}
			if !parked && serveExit.T > sigEv.T+nsSec+slack {
				res.Violate("C20.signal", "slow", "%s at %s but Serve only returned at %s", sigEv.S, ms(sigEv.T), ms(serveExit.T))
			}
		}
		// termflag
		wantTerm := int64(1)
		if sigEv.S == "SIGHUP" {
			wantTerm = 0
		}
		for _, s := range names {
			t := tasks[s]
			if t.cancelled != nil && t.cancelled.Seq > sigEv.Seq && t.cancelled.V != wantTerm && t.cancelled.V != -1 {
				res.Violate("C20.termflag", "termflag", "task %s observed cancellation at %s and read terminate()=%d, want %d for %s", s, ms(t.cancelled.T), t.cancelled.V, wantTerm, sigEv.S)
			}
			if t.cancelled != nil && t.cancelled.Seq > sigEv.Seq && sigSet != nil && t.cancelled.Seq < sigSet.Seq {
				res.Violate("C20.termflag", "order", "task %s observed cancellation before the signal was recorded", s)
			}
		}
		if len(info.plan.Faults) > 0 {
			res.Probe("signal_task_held_between_record_and_cancel")
		}
	}
	// ready
	allReady := true
	var lastReady *verifsim.Event
	for _, s := range names {
		t := tasks[s]
		if t.ready == nil || (final != nil && t.ready.Seq > final.Seq) {
			allReady = false
			continue
		}
		if lastReady == nil || t.ready.Seq > lastReady.Seq {
			lastReady = t.ready
		}
	}
	readyBeforeEnd := readyEv != nil && (final == nil || readyEv.Seq < final.Seq)
	switch {
	case readyBeforeEnd && !allReady:
		res.Violate("C20.ready", "premature", "READY=1 announced at %s although not every task had reported ready", ms(readyEv.T))
	case readyBeforeEnd && lastReady != nil && readyEv.Seq < lastReady.Seq:
		res.Violate("C20.ready", "premature", "READY=1 announced at %s before the last task became ready at %s", ms(readyEv.T), ms(lastReady.T))
	case !readyBeforeEnd && allReady && lastReady != nil && lastReady.Seq < serveExit.Seq:
		res.Violate("C20.ready", "missing", "every task reported ready by %s but READY=1 was never announced", ms(lastReady.T))
	}
	if !allReady {
		res.Probe("some_task_never_ready")
	}
}

func lastScriptEvent(ev []verifsim.Event, name string) string {
	last := ""
	for i := range ev {
		if strings.HasPrefix(ev[i].K, "script.") && ev[i].S == name {
			last = ev[i].K
		}
	}
	return last
}

func evT(e *verifsim.Event) string {
	if e == nil {
		return "never"
	}
	return ms(e.T)
}

func abs64(x int64) int64 {
	if x < 0 {
		return -x
	}
	return x
}

func init() {
	register("C20", nil, c20Gen, c20Oracle)
}
