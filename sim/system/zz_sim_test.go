//go:debug asynctimerchan=0

package system

// Deterministic simulation of Dialer.Dial (C10 part A, C11): the real
// Dial/init/setAutoconf code on the synctest fake clock, against scripted dial
// and task outcomes, a persistent simulated sysctl and scripted cancellation.
// See /verif/DESIGN.md.

import (
	"context"
	"encoding/json"
	"errors"
	"fmt"
	"io/fs"
	"log"
	"net"
	"net/netip"
	"os"
	"strings"
	"syscall"
	"testing"
	"testing/synctest"
	"time"

	"github.com/mdlayher/corerad/internal/verifsim"
	"github.com/mdlayher/ndp"
	"golang.org/x/net/ipv6"
)

const (
	nsMs  = int64(time.Millisecond)
	nsSec = int64(time.Second)
)

// Outcomes of one round: a dial attempt that fails, or succeeds and is followed
// by a task which ends in one of seven ways.
var outcomes = []string{
	"dial:linknotready", "dial:syscall", "dial:permission", "dial:opaque",
	"task:nil", "task:linkchange", "task:syscall", "task:permission", "task:exhausted", "task:opaque", "task:canceled",
}

// A Round scripts one dial attempt (and the task that follows a successful one).
type Round struct {
	Out     string `json:"out"`
	Dur     int64  `json:"dur,omitempty"`      // fake ns the task runs
	DialDur int64  `json:"dial_dur,omitempty"` // fake ns the dial attempt itself takes (it cannot be interrupted)
	Get     string `json:"get,omitempty"`      // sysctl faults of this generation (Advertise mode): permission notexist other
	Set     string `json:"set,omitempty"`
	Restore string `json:"restore,omitempty"`
	// Flip: somebody else (the operator, a re-created interface) changes the
	// sysctl just before this dial attempt.
	Flip bool `json:"flip,omitempty"`
	// How: where inside dial() the outcome arises. dial:linknotready: nosuch
	// (default) | down | noll; dial:opaque: listen (default) | filter | ctrl |
	// join (the socket exists by then).
	How string `json:"how,omitempty"`
	// Teardown: steps of giving the connection up which fail (the interface is
	// gone by then: ENODEV): leave | close | both. Real dial() only.
	Teardown string `json:"teardown,omitempty"`
}

// An SPlan is one simulated run of Dialer.Dial.
type SPlan struct {
	Prop   string  `json:"prop"`
	Class  string  `json:"class,omitempty"`
	Offset int64   `json:"offset,omitempty"`
	Cancel uint64  `json:"cancel,omitempty"`
	Mode   string  `json:"mode"` // advertise | monitor
	Auto   bool    `json:"auto"` // sysctl autoconf before the run
	Rounds []Round `json:"rounds"`
	// Cancellation: at fake ns CancelAt after the start (<0: only at the end).
	CancelAt int64 `json:"cancel_at"`
}

type timeoutErr struct{}

func (timeoutErr) Error() string { return "i/o timeout" }

func sysErr(e syscall.Errno) error {
	return &net.OpError{Op: "read", Net: "ip6:ipv6-icmp", Err: os.NewSyscallError("recvmsg", e)}
}

func outcomeErr(o string) error {
	switch o {
	case "dial:linknotready":
		return fmt.Errorf("interface %q is not up: %w", "eth0", ErrLinkNotReady)
	case "dial:syscall", "task:syscall":
		return fmt.Errorf("failed: %w", sysErr(syscall.ENETDOWN))
	case "dial:permission", "task:permission":
		return fmt.Errorf("failed: %w", sysErr(syscall.EPERM))
	case "dial:opaque", "task:opaque":
		return errors.New("simulated opaque failure")
	case "task:linkchange":
		return fmt.Errorf("failed to run advertiser: %w", ErrLinkChange)
	case "task:exhausted":
		return fmt.Errorf("failed to read NDP messages: %w", errors.New("exhausted receive retries"))
	}
	return nil
}

func sysctlErr(kind string) error {
	switch kind {
	case "permission":
		return &fs.PathError{Op: "open", Path: "/proc/sys/net/ipv6/conf/eth0/autoconf", Err: syscall.EACCES}
	case "notexist":
		return &fs.PathError{Op: "open", Path: "/proc/sys/net/ipv6/conf/eth0/autoconf", Err: syscall.ENOENT}
	case "other":
		return &fs.PathError{Op: "write", Path: "/proc/sys/net/ipv6/conf/eth0/autoconf", Err: syscall.EIO}
	}
	return nil
}

// simState is the persistent sysctl.
type simState struct {
	lg    *verifsim.Log
	auto  bool
	round *Round // faults of the generation being dialed / closed
	phase string // "dial" or "close"
}

func (s *simState) IPv6Forwarding(string) (bool, error) { return true, nil }

func (s *simState) IPv6Autoconf(string) (bool, error) {
	e := verifsim.Event{K: "auto.get"}
	if s.round != nil && s.round.Get != "" {
		e.Err = s.round.Get
		s.lg.Add(e)
		return false, sysctlErr(s.round.Get)
	}
	if s.auto {
		e.V = 1
	}
	s.lg.Add(e)
	return s.auto, nil
}

func (s *simState) SetIPv6Autoconf(_ string, v bool) error {
	e := verifsim.Event{K: "auto.set", S: s.phase}
	if v {
		e.V = 1
	}
	kind := ""
	if s.round != nil {
		if s.phase == "dial" {
			kind = s.round.Set
		} else {
			kind = s.round.Restore
		}
	}
	if kind != "" {
		e.Err = kind
		s.lg.Add(e)
		return sysctlErr(kind)
	}
	s.auto = v
	s.lg.Add(e)
	return nil
}

type stubConn struct{ Conn }

// simKernel is the operating system below the real Dialer.dial (see
// /verif/sim/systemseams): one interface, eth0, whose state and whose socket
// calls follow the Round being dialed.
type simKernel struct {
	lg    *verifsim.Log
	st    *simState
	gen   *int
	round *Round
}

func (k *simKernel) InterfaceByName(name string) (*net.Interface, error) {
	r := k.round
	if r.Out == "dial:linknotready" && (r.How == "" || r.How == "nosuch") {
		return nil, &net.OpError{Op: "route", Net: "ip+net", Source: nil, Addr: &net.IPAddr{IP: nil}, Err: errors.New("no such network interface")}
	}
	ifi := &net.Interface{Index: 2, Name: name, MTU: 1500, HardwareAddr: net.HardwareAddr{2, 0, 0, 0, 0, 1}, Flags: net.FlagUp | net.FlagBroadcast | net.FlagMulticast}
	if r.Out == "dial:linknotready" && r.How == "down" {
		ifi.Flags &^= net.FlagUp
	}
	return ifi, nil
}

func (k *simKernel) Addrs(*net.Interface) ([]net.Addr, error) {
	if r := k.round; r.Out == "dial:linknotready" && r.How == "noll" {
		return []net.Addr{&net.IPNet{IP: net.ParseIP("2001:db8::1"), Mask: net.CIDRMask(64, 128)}}, nil
	}
	return []net.Addr{&net.IPNet{IP: net.ParseIP("fe80::1"), Mask: net.CIDRMask(64, 128)}, &net.IPNet{IP: net.ParseIP("192.0.2.1"), Mask: net.CIDRMask(24, 32)}}, nil
}

func (k *simKernel) Listen(*net.Interface, ndp.Addr) (SimNDPConn, netip.Addr, error) {
	r := k.round
	if strings.HasPrefix(r.Out, "dial:") && (r.Out != "dial:opaque" || r.How == "" || r.How == "listen") {
		return nil, netip.Addr{}, outcomeErr(r.Out)
	}
	*k.gen++
	if r.Flip {
		k.st.auto = !k.st.auto
	}
	oe := verifsim.Event{K: "open", Gen: *k.gen}
	if k.st.auto {
		oe.V = 1
	}
	k.lg.Add(oe)
	return &simSock{k: k, gen: *k.gen, r: r}, netip.MustParseAddr("fe80::1"), nil
}

// simSock is the socket of one connection.
type simSock struct {
	Conn
	k   *simKernel
	gen int
	r   *Round
}

func (c *simSock) fail(step string) error {
	if c.r.Out == "dial:opaque" && c.r.How == step {
		return errors.New("simulated opaque failure")
	}
	return nil
}
func (c *simSock) SetICMPFilter(*ipv6.ICMPFilter) error            { return c.fail("filter") }
func (c *simSock) SetControlMessage(ipv6.ControlFlags, bool) error { return c.fail("ctrl") }
func (c *simSock) JoinGroup(netip.Addr) error                      { return c.fail("join") }
func (c *simSock) LeaveGroup(netip.Addr) error {
	e := verifsim.Event{K: "leave", Gen: c.gen}
	if c.r.Teardown == "leave" || c.r.Teardown == "both" {
		e.Err = "ENODEV"
		c.k.lg.Add(e)
		return &net.OpError{Op: "setsockopt", Net: "ip6:ipv6-icmp", Err: os.NewSyscallError("setsockopt", syscall.ENODEV)}
	}
	c.k.lg.Add(e)
	return nil
}
func (c *simSock) Close() error {
	// the descriptor is released whatever close(2) reports
	e := verifsim.Event{K: "close", Gen: c.gen}
	if c.r.Teardown == "close" || c.r.Teardown == "both" {
		e.Err = "EIO"
		c.k.lg.Add(e)
		return &net.OpError{Op: "close", Net: "ip6:ipv6-icmp", Err: os.NewSyscallError("close", syscall.EIO)}
	}
	c.k.lg.Add(e)
	return nil
}

func execSPlan(t *testing.T, p *SPlan, res *verifsim.Result, after func(ev []verifsim.Event)) []verifsim.Event {
	var ev []verifsim.Event
	synctest.Test(t, func(t *testing.T) {
		if p.Offset > 0 {
			time.Sleep(time.Duration(p.Offset))
		}
		context.VerifCancelSeed = p.Cancel
		context.VerifSetMapSeed(p.Cancel ^ uint64(p.Offset))
		lg := verifsim.NewLog(time.Now())
		st := &simState{lg: lg, auto: p.Auto}
		mode := Advertise
		if p.Mode == "monitor" {
			mode = Monitor
		}
		d := NewDialer("eth0", st, mode, log.New(logWriter{lg}, "", 0))

		ctx, cancel := context.WithCancel(context.Background())
		round := 0
		gen := 0
		next := func() *Round {
			if round < len(p.Rounds) {
				r := &p.Rounds[round]
				round++
				return r
			}
			return &Round{Out: "task:canceled", Dur: -1} // run until cancelled
		}
		var cur *Round
		stub := func() (*DialContext, error) {
			r := next()
			lg.Add(verifsim.Event{K: "dial.enter", V: int64(round)})
			if r.DialDur > 0 {
				time.Sleep(time.Duration(r.DialDur))
			}
			if strings.HasPrefix(r.Out, "dial:") {
				lg.Add(verifsim.Event{K: "dial.exit", Err: r.Out})
				return nil, outcomeErr(r.Out)
			}
			gen++
			g := gen
			cur = r
			if r.Flip {
				st.auto = !st.auto
			}
			oe := verifsim.Event{K: "open", Gen: g}
			if st.auto {
				oe.V = 1
			}
			lg.Add(oe)
			var restore func() error
			if mode == Advertise {
				// The composition inside the real dial() is mirrored here; the
				// function doing the work is the real one.
				st.round, st.phase = r, "dial"
				var err error
				restore, err = stubSetAutoconf(d)
				st.round = nil
				if err != nil {
					// real dial() returns here (without closing its socket: a
					// defect this stub cannot exhibit, see DESIGN.md F12)
					lg.Add(verifsim.Event{K: "close", Gen: g, S: "stub"})
					lg.Add(verifsim.Event{K: "dial.exit", Err: "setautoconf: " + err.Error()})
					return nil, err
				}
			}
			lg.Add(verifsim.Event{K: "dial.exit", Gen: g})
			dc := &DialContext{
				Conn:      stubConn{},
				Interface: &net.Interface{Index: 2, Name: "eth0", MTU: 1500},
				IP:        netip.MustParseAddr("fe80::1"),
			}
			stubSetDone(dc, func() error {
				lg.Add(verifsim.Event{K: "close", Gen: g})
				if restore != nil {
					st.round, st.phase = r, "close"
					err := restore()
					st.round = nil
					if err != nil {
						lg.Add(verifsim.Event{K: "restore.err", Gen: g, Err: err.Error()})
					}
					return err
				}
				return nil
			})
			return dc, nil
		}
		if SimRealDial {
			// The real dial(), dialNDP(), lookupInterface(), checkInterface()
			// and setAutoconf() against a simulated kernel.
			k := &simKernel{lg: lg, st: st, gen: &gen}
			SimKernel = k
			defer func() { SimKernel = nil }()
			realDial := d.DialFunc
			d.DialFunc = func() (*DialContext, error) {
				r := next()
				lg.Add(verifsim.Event{K: "dial.enter", V: int64(round)})
				if r.DialDur > 0 {
					time.Sleep(time.Duration(r.DialDur))
				}
				k.round = r
				st.round, st.phase = r, "dial"
				dctx, err := realDial()
				st.phase = "close"
				if err != nil {
					st.round = nil
					x := verifsim.Event{K: "dial.exit", Err: r.Out}
					if !strings.HasPrefix(r.Out, "dial:") {
						x.Err = "setautoconf: " + err.Error()
					}
					lg.Add(x)
					return nil, err
				}
				cur = r
				lg.Add(verifsim.Event{K: "dial.exit", Gen: gen})
				return dctx, nil
			}
		} else {
			d.DialFunc = stub
		}

		doneC := make(chan struct{})
		go func() {
			defer close(doneC)
			err := d.Dial(ctx, func(ctx context.Context, dctx *DialContext) error {
				r := cur
				lg.Add(verifsim.Event{K: "task.enter", Gen: gen, S: r.Out})
				var tc <-chan time.Time
				if r.Dur >= 0 {
					tc = time.After(time.Duration(r.Dur))
				}
				select {
				case <-ctx.Done():
					lg.Add(verifsim.Event{K: "task.exit", Gen: gen, Err: "canceled"})
					return fmt.Errorf("failed to run advertiser: %w", ctx.Err())
				case <-tc:
				}
				if r.Out == "task:canceled" {
					// wants to end by cancellation: wait for it
					<-ctx.Done()
					lg.Add(verifsim.Event{K: "task.exit", Gen: gen, Err: "canceled"})
					return fmt.Errorf("failed to run advertiser: %w", ctx.Err())
				}
				lg.Add(verifsim.Event{K: "task.exit", Gen: gen, Err: strings.TrimPrefix(r.Out, "task:")})
				return outcomeErr(r.Out)
			})
			e := verifsim.Event{K: "dial.return"}
			if err != nil {
				e.Err = err.Error()
			}
			lg.Add(e)
		}()

		// driver: cancel at the scripted instant, or once everything has settled
		if p.CancelAt >= 0 {
			time.Sleep(time.Duration(p.CancelAt))
			synctest.Wait()
			select {
			case <-doneC:
			default:
				lg.Add(verifsim.Event{K: "act.cancel"})
				cancel()
			}
		}
		synctest.Wait()
		select {
		case <-doneC:
		case <-time.After(400 * time.Second):
			// still running (e.g. a task waiting for cancellation, or a long back-off)
			synctest.Wait()
			select {
			case <-doneC:
			default:
				lg.Add(verifsim.Event{K: "act.cancel", S: "end"})
				cancel()
			}
		}
		synctest.Wait()
		select {
		case <-doneC:
		case <-time.After(10 * time.Second):
		}
		cancel()
		fin := verifsim.Event{K: "act.final"}
		if st.auto {
			fin.V = 1
		}
		lg.Add(fin)
		ev = lg.Events()
		res.FakeNs = lg.Now()
		leaked := false
		select {
		case <-doneC:
		default:
			leaked = true
			res.Leaked = 1
			res.LeakStacks = "Dial did not return"
		}
		after(ev)
		if leaked {
			verifsim.LeakExit(res)
		}
	})
	return ev
}

type logWriter struct{ lg *verifsim.Log }

func (l logWriter) Write(p []byte) (int, error) {
	l.lg.Add(verifsim.Event{K: "log", S: strings.TrimRight(string(p), "\n")})
	return len(p), nil
}

// ---------------------------------------------------------------- generators

func pow(b, e int) int {
	r := 1
	for i := 0; i < e; i++ {
		r *= b
	}
	return r
}

func enumDepth(tier string) int {
	if tier == "thorough" {
		return 6
	}
	return 4
}

// howOf picks the place inside dial() where a dial outcome arises.
func howOf(out string, k int) string {
	switch out {
	case "dial:linknotready":
		return []string{"", "down", "noll"}[k%3]
	case "dial:opaque":
		return []string{"", "filter", "ctrl", "join"}[k%4]
	}
	return ""
}

func seqFromIndex(idx, depth int) []Round {
	rs := make([]Round, depth)
	k := idx
	for i := 0; i < depth; i++ {
		rs[i] = Round{Out: outcomes[idx%len(outcomes)], Dur: int64(100+37*i) * nsMs}
		rs[i].How = howOf(rs[i].Out, k/7+i)
		idx /= len(outcomes)
	}
	return rs
}

// c10Enum: all outcome sequences to the tier's depth, then for depth<=4 every
// cancellation point of every sequence position.
func c10Enum(tier string) int {
	return pow(len(outcomes), enumDepth(tier)) + pow(len(outcomes), 3)*3*6
}

func c10Gen(rng *verifsim.RNG, idx int, tier string) any {
	p := &SPlan{Mode: []string{"advertise", "monitor"}[idx%2], Auto: idx%3 == 0, CancelAt: -1, Offset: rng.Int63n(int64(time.Hour))}
	if rng.Bool(0.5) {
		p.Cancel = rng.U64()>>1 | 1
	}
	n := pow(len(outcomes), enumDepth(tier))
	switch {
	case idx < n:
		p.Class = "enumerated"
		p.Rounds = seqFromIndex(idx, enumDepth(tier))
	case idx < c10Enum(tier):
		// cancellation points: depth-3 sequences x 3 rounds x 6 offsets
		p.Class = "enumerated-cancel"
		k := idx - n
		p.Rounds = seqFromIndex(k%pow(len(outcomes), 3), 3)
		for i := range p.Rounds {
			p.Rounds[i].DialDur = 40 * nsMs // cancellation can land inside a dial attempt
		}
		k /= pow(len(outcomes), 3)
		pos := k % 3
		off := []int64{13 * nsMs, 120 * nsMs, 155 * nsMs, 600 * nsMs, 1100 * nsMs, 2600 * nsMs}[k/3]
		// roughly: position x (task duration + back-off) plus the offset
		p.CancelAt = int64(pos)*400*nsMs + off
	default:
		p.Class = "random-long"
		// long sequences: the 50-attempt bound, growing waits, cancellation anywhere
		nr := rng.Range(1, 70)
		failRun := rng.Bool(0.5)
		for i := 0; i < nr; i++ {
			o := outcomes[rng.Intn(len(outcomes))]
			if failRun {
				o = outcomes[rng.Intn(4)] // dial failures only: drives a recovery towards 50 attempts
				if i == 0 {
					o = []string{"dial:linknotready", "dial:syscall", "task:linkchange", "task:syscall"}[rng.Intn(4)]
				}
			}
			r := Round{Out: o, Dur: int64(rng.Dur(0, 3*time.Second))}
			r.How = howOf(o, rng.Intn(12))
			if rng.Bool(0.4) {
				r.DialDur = int64(rng.Dur(time.Millisecond, 800*time.Millisecond))
			}
			p.Rounds = append(p.Rounds, r)
		}
		if rng.Bool(0.5) {
			p.CancelAt = int64(rng.Dur(0, 200*time.Second)) + 777
			if rng.Bool(0.5) {
				p.CancelAt = int64(rng.Dur(0, 8*time.Second)) + 777
			}
		}
	}
	avoidCoin(p)
	return p
}

// avoidCoin moves a cancellation that would land inside the very first dial
// attempt when that attempt fails recoverably: init() then enters its recovery
// loop with a zero first wait and selects between an expired timer and a
// cancelled context, which the Go runtime decides by coin (DESIGN.md 2.4) and
// no plan can replay. (The oracle accepts either outcome; this only keeps runs
// deterministic.)
func avoidCoin(p *SPlan) {
	if p.CancelAt < 0 || len(p.Rounds) == 0 {
		return
	}
	r0 := p.Rounds[0]
	if (r0.Out == "dial:linknotready" || r0.Out == "dial:syscall") && p.CancelAt <= r0.DialDur {
		p.CancelAt = r0.DialDur + 1000
	}
}

var sysctlKinds = []string{"", "permission", "notexist", "other"}

func c11Enum(tier string) int {
	// depth-2 (quick) / depth-3 (thorough) sequences x initial autoconf x one faulty generation with
	// every (get,set,restore) combination
	d := 2
	if tier == "thorough" {
		d = 3
	}
	return pow(len(outcomes), d) * 2 * 64 * d * 2
}

func c11Gen(rng *verifsim.RNG, idx int, tier string) any {
	p := &SPlan{Mode: "advertise", CancelAt: -1, Offset: rng.Int63n(int64(time.Hour))}
	d := 2
	if tier == "thorough" {
		d = 3
	}
	if idx < c11Enum(tier) {
		p.Class = "enumerated"
		k := idx
		p.Rounds = seqFromIndex(k%pow(len(outcomes), d), d)
		k /= pow(len(outcomes), d)
		p.Auto = k%2 == 0
		k /= 2
		f := k % 64
		k /= 64
		which := k % d
		p.Rounds[which].Get, p.Rounds[which].Set, p.Rounds[which].Restore = sysctlKinds[f%4], sysctlKinds[(f/4)%4], sysctlKinds[f/16]
		// every second copy of the corpus has the sysctl changed by somebody
		// else before the last connection is opened
		if (k/d)%2 == 1 {
			p.Rounds[d-1].Flip = true
			p.Class = "enumerated+flip"
		}
		return p
	}
	p.Class = "random"
	p.Auto = rng.Bool(0.5)
	if rng.Bool(0.3) {
		p.Mode = "monitor"
	}
	nr := rng.Range(1, 12)
	for i := 0; i < nr; i++ {
		r := Round{Out: outcomes[rng.Intn(len(outcomes))], Dur: int64(rng.Dur(0, 2*time.Second))}
		if rng.Bool(0.5) {
			r.DialDur = int64(rng.Dur(time.Millisecond, 800*time.Millisecond))
		}
		if rng.Bool(0.3) {
			r.Get = sysctlKinds[rng.Intn(4)]
		}
		if rng.Bool(0.3) {
			r.Set = sysctlKinds[rng.Intn(4)]
		}
		if rng.Bool(0.3) {
			r.Restore = sysctlKinds[rng.Intn(4)]
		}
		r.Flip = i > 0 && rng.Bool(0.2)
		if rng.Bool(0.15) {
			// giving the connection up meets errors of its own (the interface
			// has vanished): they must not keep the sysctl from being put back
			r.Teardown = []string{"leave", "close", "both"}[rng.Intn(3)]
		}
		p.Rounds = append(p.Rounds, r)
	}
	if rng.Bool(0.6) {
		p.CancelAt = int64(rng.Dur(0, 10*time.Second)) + 777
	}
	avoidCoin(p)
	return p
}

// -------------------------------------------------------------------- oracles

func ms(ns int64) string { return fmt.Sprintf("%.6fs", float64(ns)/1e9) }

func recoverable(class string) bool {
	switch class {
	case "dial:linknotready", "dial:syscall", "linkchange", "syscall":
		return true
	}
	return false
}

// c10Oracle checks the recorded history against the documented policy.
func c10Oracle(p *SPlan, ev []verifsim.Event, res *verifsim.Result) {
	var cancelT int64 = -1
	cancelSeq := 0
	var ret *verifsim.Event
	for i := range ev {
		e := &ev[i]
		if e.K == "act.cancel" && cancelSeq == 0 {
			cancelT, cancelSeq = e.T, e.Seq
		}
		if e.K == "dial.return" {
			ret = e
		}
	}
	if ret == nil {
		res.Violate("C10.cancel", "never-returned", "Dial never returned (cancelled at %s)", ms(cancelT))
		return
	}
	res.Nontrivial = true

	// Walk the history: causes and what followed them.
	inRecovery := false
	attempts := 0
	var lastAttemptExit int64
	var waits []int64
	var causeT int64
	var pendingCause string // cause awaiting its consequence
	firstDial := true
	lastDialEnterSeq := 0
	dialsAfterCancel := 0
	for i := range ev {
		e := &ev[i]
		afterCancel := cancelSeq != 0 && e.Seq > cancelSeq
		switch e.K {
		case "dial.enter":
			lastDialEnterSeq = e.Seq
			if afterCancel {
				// One further attempt is tolerated: when cancellation precedes a
				// zero first wait, init() may pick the expired timer over the
				// cancelled context (the statement only asks for a prompt clean return).
				dialsAfterCancel++
				if dialsAfterCancel > 1 {
					res.Violate("C10.cancel", "dial-after-cancel", "%d dials were attempted after cancellation at %s (latest at %s)", dialsAfterCancel, ms(cancelT), ms(e.T))
				}
			}
			if pendingCause != "" {
				if !recoverable(pendingCause) {
					res.Violate("C10.classify", "fatal-recovered:"+pendingCause, "non-recoverable cause %q at %s was followed by a re-dial", pendingCause, ms(causeT))
				}
				inRecovery, attempts, waits = true, 0, nil
				lastAttemptExit = causeT
				pendingCause = ""
			}
			if inRecovery {
				attempts++
				waits = append(waits, e.T-lastAttemptExit)
			}
		case "dial.exit":
			if e.Err == "" {
				if inRecovery {
					c10Backoff(res, waits, attempts)
				}
				inRecovery = false
			} else {
				lastAttemptExit = e.T
				if !inRecovery && firstDial {
					pendingCause, causeT = e.Err, e.T
				}
				// inside a recovery a failed attempt may be retried or end the recovery: both accepted
			}
			firstDial = false
		case "task.enter":
			if afterCancel && lastDialEnterSeq > cancelSeq && dialsAfterCancel > 1 {
				res.Violate("C10.cancel", "task-after-cancel", "the task was invoked at %s on a connection dialed after cancellation at %s", ms(e.T), ms(cancelT))
			}
			if afterCancel {
				// a dial that was in flight when cancellation came completes; its
				// connection is handed to the task, which returns at once
				res.Probe("cancelled_during_dial")
			}
		case "task.exit":
			if e.Err != "nil" && e.Err != "canceled" {
				pendingCause, causeT = e.Err, e.T
			}
			if e.Err == "nil" {
				pendingCause = "nil"
				causeT = e.T
			}
		case "restore.err":
			pendingCause = "" // cleanup failed: Dial reports that instead (C11)
		case "dial.return":
			cancelled := cancelSeq != 0 && e.Seq > cancelSeq
			switch {
			case cancelled:
				if e.Err != "" && !strings.Contains(e.Err, "clean up") && !failedAfterCancel(ev, cancelSeq) {
					res.Violate("C10.cancel", "result", "Dial returned %q after cancellation", e.Err)
				}
				if e.T > cancelT+dialTimeAfterCancel(ev, cancelSeq) {
					res.Violate("C10.cancel", "late", "Dial returned at %s, %s after cancellation", ms(e.T), time.Duration(e.T-cancelT))
				}
			case pendingCause == "nil":
				if e.Err != "" {
					res.Violate("C10.classify", "nil-error", "the task returned nil but Dial returned %q", e.Err)
				}
			case pendingCause != "" && recoverable(pendingCause):
				res.Violate("C10.classify", "recoverable-fatal:"+pendingCause, "recoverable cause %q at %s ended Dial with %q instead of a re-dial", pendingCause, ms(causeT), e.Err)
			case pendingCause != "":
				if e.Err == "" {
					res.Violate("C10.classify", "fatal-unreported:"+pendingCause, "non-recoverable cause %q at %s was not reported (Dial returned nil)", pendingCause, ms(causeT))
				}
			case inRecovery:
				c10Backoff(res, waits, attempts)
				if e.Err == "" {
					res.Violate("C10.exhaust", "exhaust", "a recovery ended after %d failed attempts without an error", attempts)
				}
				if attempts >= 50 {
					res.Probe("fifty_attempts")
				}
			}
		}
	}
	if cancelSeq != 0 {
		res.Probe("cancelled")
	}
}

// dialTimeAfterCancel returns how long dial attempts kept the Dialer busy after
// the cancellation (a dial attempt cannot be interrupted).
func dialTimeAfterCancel(ev []verifsim.Event, cancelSeq int) int64 {
	var enterT int64 = -1
	var cancelT, busy int64
	for i := range ev {
		e := &ev[i]
		switch {
		case e.Seq == cancelSeq:
			cancelT = e.T
		case e.K == "dial.enter":
			enterT = e.T
		case e.K == "dial.exit" && enterT >= 0:
			if e.Seq > cancelSeq {
				from := enterT
				if from < cancelT {
					from = cancelT
				}
				busy += e.T - from
			}
			enterT = -1
		}
	}
	return busy
}

// failedAfterCancel reports whether a dial attempt failed after the
// cancellation: whether Dial then reports that failure or the cancellation is
// not specified.
func failedAfterCancel(ev []verifsim.Event, cancelSeq int) bool {
	for i := range ev {
		e := &ev[i]
		if e.Seq > cancelSeq && e.K == "dial.exit" && e.Err != "" {
			return true
		}
	}
	return false
}

func c10Backoff(res *verifsim.Result, waits []int64, attempts int) {
	if attempts > 50 {
		res.Violate("C10.backoff", "attempts", "%d dial attempts in one recovery (max 50)", attempts)
	}
	for i, w := range waits {
		switch {
		case w > 3*nsSec:
			res.Violate("C10.backoff", "too-long", "wait #%d before a dial attempt is %s (max 3s)", i, time.Duration(w))
		case i == 0:
			if w != 0 && w != 250*nsMs {
				res.Violate("C10.backoff", "first", "first wait of a recovery is %s (0 or 250ms expected)", time.Duration(w))
			}
		default:
			want := waits[i-1] + 250*nsMs
			if want > 3*nsSec {
				want = 3 * nsSec
			}
			if w != want {
				res.Violate("C10.backoff", "step", "wait #%d is %s after %s: waits must grow by 250ms up to 3s (%v)", i, time.Duration(w), time.Duration(waits[i-1]), waits)
				return
			}
		}
	}
	if len(waits) >= 13 {
		res.Probe("wait_capped_at_3s")
	}
}

// c11Oracle: connections cleaned up exactly once; autoconf always restored.
func c11Oracle(p *SPlan, ev []verifsim.Event, res *verifsim.Result) {
	for i := range ev {
		// injected failures that took effect, for the evidence
		if e := &ev[i]; e.Err != "" && (e.K == "leave" || e.K == "close" || e.K == "auto.get" || e.K == "auto.set") {
			res.Fault("dialer." + e.K + "." + e.Err)
		}
	}
	open := map[int]bool{}
	closed := map[int]int{}
	var ret *verifsim.Event
	final := p.Auto
	// per generation: the sysctl's value when the connection was opened, the
	// value read by get, set outcome, restore outcome
	type gs struct {
		before   bool
		got      *bool
		setErr   string
		setDone  bool
		resErr   string
		restored *bool
	}
	gens := map[int]*gs{}
	curGen := 0
	// exp is what the sysctl must hold according to the property: whatever
	// it was when a connection was opened, false while one is held, and the
	// opening value again after a successful restore.
	exp := p.Auto
	var pendingGet *bool
	for i := range ev {
		e := &ev[i]
		switch e.K {
		case "open":
			for g := range open {
				if open[g] {
					res.Violate("C11.once", "overlap", "connection %d opened while connection %d was still open", e.Gen, g)
				}
			}
			open[e.Gen] = true
			curGen = e.Gen
			gens[e.Gen] = &gs{before: e.V == 1}
			if exp != (e.V == 1) {
				res.Probe("sysctl_changed_between_connections")
			}
			exp = e.V == 1
			res.Nontrivial = true
		case "close":
			closed[e.Gen]++
			if closed[e.Gen] > 1 {
				res.Violate("C11.once", "twice", "connection %d cleaned up %d times", e.Gen, closed[e.Gen])
			}
			open[e.Gen] = false
			curGen = e.Gen
		case "auto.get":
			if e.Err == "" {
				v := e.V == 1
				pendingGet = &v
				if g := gens[curGen]; g != nil {
					g.got = &v
				}
			}
		case "auto.set":
			g := gens[curGen]
			if e.S == "dial" {
				if g != nil {
					g.setErr = e.Err
					g.setDone = e.Err == ""
				}
				if e.Err == "" {
					exp = false
				}
				if e.V != 0 {
					res.Violate("C11.window", "enable-on-dial", "dialing wrote autoconf=%d", e.V)
				}
			} else {
				if g != nil {
					g.resErr = e.Err
					v := e.V == 1
					g.restored = &v
					if g.before != v {
						res.Violate("C11.wrongvalue", "wrongvalue", "autoconf was %t when connection %d was opened but cleanup wrote %t", g.before, curGen, v)
					}
					if e.Err == "" {
						exp = v
					}
				}
			}
		case "dial.return":
			ret = e
			for g, o := range open {
				if o {
					res.Violate("C11.once", "never", "connection %d was still open when Dial returned", g)
				}
			}
		case "act.final":
			final = e.V == 1
		}
	}
	_ = pendingGet
	if ret == nil {
		return
	}
	// report: a non-tolerated restore error must be reported, a tolerated one must not
	anyOther := false
	for _, s := range gens {
		if s.resErr == "other" {
			anyOther = true
		}
	}
	for g, s := range gens {
		switch s.resErr {
		case "other":
			if !strings.Contains(ret.Err, "clean up") && !strings.Contains(ret.Err, "restore") {
				res.Violate("C11.report", "unreported", "restoring autoconf for connection %d failed with an I/O error but Dial returned %q", g, ret.Err)
			}
			res.Probe("restore_failed_other")
		case "permission", "notexist":
			if strings.Contains(ret.Err, "clean up") && !anyOther {
				res.Violate("C11.report", "tolerated-reported", "a tolerated restore failure (%s) for connection %d was reported: %q", s.resErr, g, ret.Err)
			}
			res.Probe("restore_failed_tolerated")
		}
		if s.restored == nil && s.setDone && p.Mode == "advertise" {
			res.Violate("C11.restored", "no-restore", "connection %d disabled autoconf but never wrote it back", g)
		}
	}
	if p.Mode == "advertise" && final != exp {
		res.Violate("C11.restored", "final", "autoconf is %t after Dial returned; the connections' opening values and restore outcomes leave it %t", final, exp)
	}
	if p.Mode == "monitor" {
		for i := range ev {
			if ev[i].K == "auto.set" || ev[i].K == "auto.get" {
				res.Violate("C11.window", "monitor-touches", "a monitoring dialer touched the autoconf sysctl")
				break
			}
		}
	}
}

// ------------------------------------------------------------------ registry

func handler(enum func(string) int, gen func(*verifsim.RNG, int, string) any, oracle func(*SPlan, []verifsim.Event, *verifsim.Result)) verifsim.Handler {
	return verifsim.Handler{
		Enum: enum,
		Gen:  gen,
		Exec: func(t *testing.T, plan []byte, res *verifsim.Result) {
			var p SPlan
			if err := json.Unmarshal(plan, &p); err != nil {
				fmt.Fprintf(os.Stderr, "sim: bad plan: %v\n", err)
				os.Exit(2)
			}
			execSPlan(t, &p, res, func(ev []verifsim.Event) {
				oracle(&p, ev, res)
				res.Events = len(ev)
				res.Hash = verifsim.Hash(ev)
				res.Sched = verifsim.SchedSig(ev)
				res.Class = p.Class
				n := len(ev)
				if n > 40 {
					n = 40
				}
				res.Head = ev[:n]
				if verifsim.Dump() {
					res.Log = ev
				}
			})
		},
	}
}

func TestSim(t *testing.T) {
	verifsim.WorkerMain(t, map[string]verifsim.Handler{
		"C10": handler(c10Enum, func(r *verifsim.RNG, i int, tier string) any {
			p := c10Gen(r, i, tier).(*SPlan)
			p.Prop = "C10"
			return p
		}, c10Oracle),
		"C11": handler(c11Enum, func(r *verifsim.RNG, i int, tier string) any {
			p := c11Gen(r, i, tier).(*SPlan)
			p.Prop = "C11"
			return p
		}, c11Oracle),
	})
}
