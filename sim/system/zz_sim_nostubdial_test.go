//go:build verif_nodirect

package system

func stubSetAutoconf(*Dialer) (func() error, error) {
	panic("sim: the fallback stub of dial() is not available in this build (its helper file does not compile against the tree)")
}

func stubSetDone(*DialContext, func() error) {
	panic("sim: the fallback stub of dial() is not available in this build (its helper file does not compile against the tree)")
}
