//go:build !verif_nodirect

package system

// The two places where the fallback stub of dial() (used only when the seam
// substitution below the real dial() does not compile against the tree) names
// unexported identifiers of the package. If THIS file does not compile either,
// the runner builds with the tag verif_nodirect and the stub is unavailable.

func stubSetAutoconf(d *Dialer) (func() error, error) { return d.setAutoconf() }

func stubSetDone(dc *DialContext, f func() error) { dc.done = f }
