package system

// Simulation build only (added to the package through `go build -overlay`, see
// /verif/verif): the operating system below Dialer.dial as a seam. The runner
// compiles dialer.go and conn.go from copies in which the calls
//
//	net.InterfaceByName(..)      -> simInterfaceByName(..)
//	checkInterface(ifi, ifi.Addrs) -> checkInterface(ifi, simAddrs(ifi))
//	ndp.Listen(..)               -> simListen(..)
//
// have been substituted (and dialNDP returns the interface below instead of
// *ndp.Conn), so that the real dial(), dialNDP(), lookupInterface(),
// checkInterface() and setAutoconf() run in the simulation, composition and
// error paths included. With SimKernel nil the real calls are made.

import (
	"net"
	"net/netip"

	"github.com/mdlayher/ndp"
	"golang.org/x/net/ipv6"
)

// SimRealDial reports that the substitutions above were applied to this build.
const SimRealDial = true

// A SimNDPConn is what dial() and dialNDP() need from *ndp.Conn.
type SimNDPConn interface {
	Conn
	SetICMPFilter(f *ipv6.ICMPFilter) error
	SetControlMessage(cf ipv6.ControlFlags, on bool) error
	JoinGroup(group netip.Addr) error
	LeaveGroup(group netip.Addr) error
	Close() error
}

var _ SimNDPConn = &ndp.Conn{}

// A SimOS stands for the kernel below Dialer.dial.
type SimOS interface {
	InterfaceByName(name string) (*net.Interface, error)
	Addrs(ifi *net.Interface) ([]net.Addr, error)
	Listen(ifi *net.Interface, addr ndp.Addr) (SimNDPConn, netip.Addr, error)
}

// SimKernel, when non-nil, answers in place of the operating system.
var SimKernel SimOS

func simInterfaceByName(name string) (*net.Interface, error) {
	if k := SimKernel; k != nil {
		return k.InterfaceByName(name)
	}
	return net.InterfaceByName(name)
}

func simAddrs(ifi *net.Interface) func() ([]net.Addr, error) {
	if k := SimKernel; k != nil {
		return func() ([]net.Addr, error) { return k.Addrs(ifi) }
	}
	return ifi.Addrs
}

func simListen(ifi *net.Interface, addr ndp.Addr) (SimNDPConn, netip.Addr, error) {
	if k := SimKernel; k != nil {
		return k.Listen(ifi, addr)
	}
	c, ip, err := ndp.Listen(ifi, addr)
	if err != nil {
		return nil, netip.Addr{}, err
	}
	return c, ip, nil
}
